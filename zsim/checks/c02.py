"""C02 -- every transaction reads from one consistent snapshot (DESIGN §6
C02)."""

import random

from .. import ctx
from .. import mvcc

ID = 'C02'
LEVEL = 'exploration'
RULE = ('one run = 2-4 client tasks (own transaction manager, pooled '
        'connection, explicit and implicit modes) running seeded scripts of '
        'begin/read/write/savepoint/commit/abort/close+reopen/'
        'cacheMinimize/sync over shared cells on a DB over FileStorage '
        '(simulated disk), MappingStorage or DemoStorage, interleaved by '
        'the seeded scheduler at every lock operation and raw file I/O '
        '(random, sticky and PCT strategies; cache and pool sizes, buffer '
        'size per run); the recorded history of (oid, serial, token) reads '
        'is checked against the committed history: revisions exist, their '
        'validity intervals intersect, and the intersection is not older '
        'than the last commit returned before the boundary; non-trivial = '
        '>= 2 commits and >= 1 context switch; distinct = hash of the '
        'schedule trace')
RULE += ('  '
         'Later additions: speculative '
         'savepoint/modify/savepoint/rollback steps; one run in eight '
         'with line-level pre-emption inside the MVCC adapter or the '
         'read-handle pool; bystander tasks asking the storage itself '
         '(getTid, history, loadSerial, undoLog, lastInvalidations) '
         "with an oracle on their answers; the serial a connection's "
         'copy carries after its commit. ')
BUDGET = {'quick': {'runs': 6000, 'wall': 300, 'chunk': 20},
          'thorough': {'runs': 600000, 'wall': 1200, 'chunk': 100}}
ASSUMPTIONS = [
    'pre-emption points are lock operations and raw file I/O (the '
    'granularity the property states); one run in eight adds every source '
    'line of the MVCC adapter or of the file storage\'s read-handle pool',
    'a reader may see ConflictError subclasses (retryable); any other '
    'exception is a violation',
]
SHRINK = ['scripts']


def gen(seed, tier):
    r = random.Random(seed)
    kind = r.choice(('file', 'file', 'file', 'mapping', 'demo:mapping'))
    ncell = r.choice((2, 3, 4, 6))
    nclient = r.choice((2, 2, 3, 3, 4))
    scripts = [mvcc.gen_script(r, ncell, r.randint(2, 7),
                               write_p=r.choice((0.2, 0.5)))
               for _ in range(nclient)]
    case = {
        'kind': kind, 'ncell': ncell, 'scripts': scripts,
        'explicit': [r.random() < 0.3 for _ in range(nclient)],
        'cache_size': r.choice((0, 1, 4, 400)),
        'pool_size': r.choice((1, 2, 7)),
        'bufsize': r.choice((16, 64, 512, 8192, 65536)),
        'classes': [r.choice(('Cell', 'Cell', 'Merge'))
                    for _ in range(ncell)],
        'sched': mvcc.sched_config(r),
        'tick': r.choice((0.37, 0.37, 1e-7, 45.0)), 'tier': tier,
    }
    if r.random() < 0.15:
        case['pokers'] = mvcc.gen_pokers(r, ncell)
    if r.random() < 0.12:
        # line-level pre-emption concentrated on the code that hands out
        # snapshots and invalidations (the MVCC adapter), or on the pool of
        # read handles of the file storage
        from .. import seams
        where = r.choice(('mvccadapter.py', 'mvccadapter.py',
                          'FileStorage/FileStorage.py'))
        case['sched']['fine'] = {
            'p': r.choice((0.1, 0.3, 0.5)),
            'prefix': seams.repo_src() + '/ZODB/' + where}
        if where.startswith('FileStorage'):
            case['sched']['fine']['qual'] = 'FilePool.'
    return case


def run(case):
    w, s = mvcc.run_world(case)
    log = None
    try:
        log = w.final_log()
        mvcc.check_snapshots(w, log)
        mvcc.check_pokers(w, log, w.poker_results)
        mvcc.check_serials(w, log)
        if not s.deadlock and not s.capped:
            mvcc.check_final_state(w, log)
    except Exception as e:      # noqa: B902
        import traceback
        w.flag('oracle-raises', '%s: %s | %s' % (
            type(e).__name__, str(e)[:80],
            ' / '.join(x.strip()[:70] for x in
                       traceback.format_exc().strip().splitlines()[-4:-1])))
    finally:
        try:
            w.db.close()
        except Exception:       # noqa: B902
            pass
    ncommit = len(w.commits_ok)
    stats = dict(w.stats)
    stats['sim_time_s'] = w.sim.clock.elapsed()
    stats['kind:' + case['kind']] = 1
    stats['commits'] = ncommit
    stats['strategy:' + case['sched']['strategy']] = 1
    for t in w.tasks:
        for o in t.outcomes:
            stats['outcome:' + o] = stats.get('outcome:' + o, 0) + 1
    for k, n in w.sim.probes.items():
        stats['probe:' + k] = n
    import zlib
    trace = zlib.crc32(repr(s.trace).encode())
    return {
        'violations': [{'oracle': o, 'detail': x} for o, x in w.viol[:20]],
        'stats': stats,
        'keys': ['%s|%x' % (case['kind'], trace)]
        if ncommit >= 2 and s.switches else [],
        'evals': 1,
        'sample': {'kind': case['kind'], 'scripts': case['scripts'],
                   'sched': case['sched'], 'yield_points': s.steps,
                   'switches': s.switches,
                   'outcomes': [t.outcomes for t in w.tasks]},
        'digest': w.sim.digest(repr(w.rec.events), w.viol, s.trace),
        'schedule': list(s.trace),
    }


LEVEL_TEXT = ('seeded search over schedules: real DB/Connection/MVCC '
              'adapter/FileStorage code runs in real threads that a seeded '
              'baton-passing scheduler interleaves at every lock operation '
              'and raw file I/O; every read is recorded and checked after '
              'the run against the committed history read back from the '
              'storage (interval intersection + freshness + fresh-'
              'connection final state).  One seed = one exactly repeatable '
              'interleaving.  Sampling, not proof.')
LEVEL_NOTE = ('pre-emption granularity = seams (locks, file I/O); C-level '
              'code (persistent, BTrees, io) is not pre-empted; <= 4 '
              'clients x <= 7 transactions; trusted: scheduler, recorder, '
              'history oracle')
TECHNIQUE = ('deterministic simulation: seeded scheduler over real threads '
             'at lock/file-I/O yield points, recorded client history '
             'checked against committed history')
