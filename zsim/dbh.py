"""Connection-level harness: a DB over a simulated storage, clients with
their own transaction managers, and a committed-history log adopted from
the storage's own iterator."""

import transaction
import ZODB
from ZODB.utils import p64
from ZODB.utils import u64
from ZODB.utils import z64

from . import objs
from .model import BACK
from .model import DATA
from .model import UNCREATE
from .model import Log
from .model import MRec
from .model import MTxn

PATH = '/sim/Data.fs'


class OrderedSet:
    """Insertion-ordered stand-in for the id-hashed set of MVCC instances
    (iteration order must not depend on object addresses)."""

    def __init__(self):
        self._d = {}

    def add(self, x):
        self._d[id(x)] = x

    def remove(self, x):
        del self._d[id(x)]

    def discard(self, x):
        self._d.pop(id(x), None)

    def __iter__(self):
        return iter(list(self._d.values()))

    def __len__(self):
        return len(self._d)

    def __contains__(self, x):
        return id(x) in self._d


def make_storage(sim, kind, opts=None):
    opts = dict(opts or {})
    if kind == 'file':
        from ZODB.FileStorage import FileStorage
        return FileStorage(PATH, **opts)
    if kind == 'mapping':
        from ZODB.MappingStorage import MappingStorage
        return MappingStorage()
    if kind.startswith('hex:'):
        # a record-transforming wrapper (IStorageWrapper) around a
        # conflict-resolving storage: ZODB's own reference wrapper
        from ZODB.tests.hexstorage import HexStorage
        return HexStorage(make_storage(sim, kind[4:], opts))
    if kind.startswith('demo'):
        from ZODB.DemoStorage import DemoStorage
        from ZODB.FileStorage import FileStorage
        from ZODB.MappingStorage import MappingStorage
        _, base, changes = (kind.split(':') + ['mapping', 'mapping'])[:3]
        b = FileStorage('/sim/Base.fs') if base == 'file' \
            else MappingStorage('base')
        c = FileStorage('/sim/Changes.fs') if changes == 'file' \
            else MappingStorage('changes')
        return DemoStorage(base=b, changes=c)
    raise ValueError(kind)


def make_db(sim, kind='file', st_opts=None, storage=None, **db_opts):
    st = storage if storage is not None else make_storage(sim, kind, st_opts)
    db = ZODB.DB(st, **db_opts)
    mv = db._mvcc_storage
    if hasattr(mv, '_instances'):
        old = list(mv._instances)
        mv._instances = OrderedSet()
        for i in old:
            mv._instances.add(i)
    return db


def rec_from_iter(r):
    """MRec from a storage iterator record (bytes written by ZODB's own
    serializer or by the harness)."""
    if r.data is None:
        return MRec(r.oid, UNCREATE, None)
    cls = None
    refs = ()
    try:
        meta, state = objs.decode_record(r.data)
        if isinstance(meta, tuple) and meta and meta[0] == 'class':
            cls = meta[2]
        elif isinstance(meta, tuple) and meta and isinstance(meta[0], tuple):
            cls = meta[0][2]
        from .hist import _markers
        refs = tuple(k[1] for k in _markers(state) if k[0] in ('oc', 'o'))
    except Exception:       # noqa: B902 -- foreign pickles: no class info
        pass
    kind = BACK if getattr(r, 'data_txn', None) else DATA
    return MRec(r.oid, kind, r.data, getattr(r, 'data_txn', None), refs, cls)


def adopt(log, storage):
    """Append to `log` the transactions the storage holds beyond it."""
    last = log.last_tid()
    start = p64(u64(last) + 1) if last != z64 else None
    it = storage.iterator(start)
    n = 0
    for t in it:
        ext = getattr(t, 'extension_bytes', None)
        if ext is None:
            import pickle
            e = getattr(t, 'extension', {})
            ext = pickle.dumps(e, 3) if e else b''
        log.append(MTxn(t.tid, t.status, t.user, t.description, ext,
                        [rec_from_iter(r) for r in t]))
        n += 1
    if hasattr(it, 'close'):
        it.close()
    return n


class Client:

    def __init__(self, db, name, explicit=False):
        self.db = db
        self.name = name
        self.tm = transaction.TransactionManager(explicit=explicit)
        self.explicit = explicit
        self.conn = None

    def open(self, **kw):
        self.conn = self.db.open(self.tm, **kw)
        return self.conn

    def close(self):
        if self.conn is not None:
            self.conn.close()
            self.conn = None

    def begin(self):
        try:
            return self.tm.begin()
        except transaction.interfaces.AlreadyInTransaction:
            self.tm.abort()
            return self.tm.begin()

    def commit(self):
        self.tm.commit()

    def abort(self):
        try:
            self.tm.abort()
        except transaction.interfaces.NoTransaction:
            pass

    def root(self):
        return self.conn.root()


def token_of(data):
    """token stored in a Cell-like record (None if not decodable)."""
    try:
        _, state = objs.decode_record(data)
        return hashable(state.get('token'))
    except Exception:       # noqa: B902
        return None


def hashable(x):
    if isinstance(x, list):
        return tuple(hashable(i) for i in x)
    return x


def leaf_token(tok):
    """The writer's own token inside a (possibly repeatedly) merged one."""
    while isinstance(tok, tuple) and len(tok) == 3 and tok[0] == 'm':
        tok = tok[2]
    return tok
