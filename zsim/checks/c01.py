"""C01 -- committed transactions survive a crash at any point; unfinished
ones vanish (DESIGN §6 C01).  History sampled by seed; crash points of that
history enumerated."""

import random
import zlib

from .. import ctx
from .. import fsparse
from .. import gen as G
from .. import simfs
from ..hist import Driver
from ..hist import Violation
from ..model import Log
from ..sweep import sweep

ID = 'C01'
LEVEL = 'fault_enumeration'
RULE = ('one run = one seeded FileStorage history (commits, aborts at every '
        'phase, undos, deletes, restores, reopen) whose op log of low-level '
        'writes/truncates/renames/fsyncs is then cut at every op boundary '
        'and at byte prefixes of every data-file write (quick: all bytes of '
        'writes <= 64 B, field boundaries + seeded offsets of larger ones; '
        'thorough: all bytes of writes <= 2 kB, 64 offsets otherwise); one '
        'evaluation = one crash image reopened and compared with the model '
        'prefix; non-trivial = the cut lies after the first commit began; '
        'distinct = hash of the data-file bytes of the crash image before '
        'recovery; for a seeded subset of the images that recovery had to '
        'repair, the recovery\'s own operations are cut again (a second '
        'crash while reopening) and judged by the same oracle; at every '
        'point where a commit returned, additionally the image in which '
        'all data-file writes not yet followed by an fsync are lost; for '
        'the deep subset also the image whose index file (renamed into '
        'place without an fsync of its contents) is empty or cut short; '
        'after each appending data-file write also the images in which '
        'the file length is on disk before the data (zeros from the synced '
        'length, a block boundary, a random point or inside the header)')
BUDGET = {'quick': {'runs': 3000, 'wall': 300, 'chunk': 10},
          'thorough': {'runs': 30000, 'wall': 2400, 'chunk': 10}}
ASSUMPTIONS = [
    'crash model of the property: a prefix of the issued low-level '
    'operations with at most one torn (byte-prefix) write; no reordering of '
    'un-synced writes (all applied, or -- at acknowledgement points -- all '
    'lost, or -- after each data-file write -- the file length persisted '
    'with the appended bytes, from the last synced length, a block boundary '
    'or a random point on, reading as zeros; arbitrary subsets of un-synced '
    'writes, e.g. a lost block followed by a persisted one, are not '
    'explored: FileStorage issues one fsync per commit and relies on their '
    'order)',
    'a transaction whose tpc_finish had been invoked but had not returned '
    'at the crash may be present or absent',
]
SHRINK = ['ops']
PATH = '/sim/Data.fs'


def gen(seed, tier):
    r = random.Random(seed)
    n = r.randint(3, 9) if tier == 'quick' else r.randint(3, 12)
    ops = G.gen_history(
        ctx.subseed(seed, 'hist'), 'file', n=n,
        weights={'new_oid': 0, 'wrong': 0, 'clock': 2, 'reopen': 5,
                 'txn': 55, 'undo': 14, 'rtxn': 8, 'delete': 4})
    # keep files small: cap record sizes
    cap = 3000 if tier == 'quick' else 20000
    for op in ops:
        for rec in op.get('recs', ()):
            if rec.get('size', 0) > cap:
                rec['size'] = cap
        m = op.get('meta')
        if m:
            for k in list(m):
                if m[k] > 4000:
                    m[k] = 300
    return {
        'bufsize': r.choice((16, 64, 512, 4096, 8192, 65536)),
        'tick': r.choice((0.37, 1e-7, 45.0)),
        'ops': ops,
        'tier': tier,
        'deep_every': r.choice((7, 13, 29)),
        'nest_every': r.choice((3, 5)) if tier == 'quick' else 1,
    }


def torn_points(n, data, r, tier):
    if n <= 1:
        return []
    if tier == 'thorough':
        if n <= 2048:
            return list(range(1, n))
        pts = set(range(1, 65)) | set(range(n - 16, n))
        pts.update(r.randrange(1, n) for _ in range(64))
    else:
        if n <= 64:
            return list(range(1, n))
        pts = {1, 7, 8, 9, 15, 16, 17, 18, 22, 23, 24, 41, 42, 43, n - 9,
               n - 8, n - 7, n - 1}
        pts.update(r.randrange(1, n) for _ in range(8))
    return sorted(p for p in pts if 0 < p < n)


class Recovery:
    """Reopens crash images and judges them."""

    def __init__(self, case, model, marks, end_clock):
        self.case = case
        self.model = model
        self.marks = marks
        self.viol = []
        self.seen = set()
        self.evals = 0
        self.nontrivial = 0
        self.stats = {}
        self.rsim = ctx.Sim(ctx.subseed(case['seed'], 'recovery'),
                            bufsize=case['bufsize'])
        self.rsim.clock.set(end_clock + 1000)
        self.want_all = [(t.tid, t.status, t.user, t.desc, t.ext,
                          [(r.oid, r.data) for r in t.recs])
                         for t in model.txns]
        self.prefix_models = {}

    def flag(self, oracle, detail):
        if len(self.viol) < 20:
            self.viol.append((oracle, detail))

    def bump(self, k):
        self.stats[k] = self.stats.get(k, 0) + 1

    def allowed(self, k, torn):
        acked = 0
        for i, m in enumerate(self.marks):
            if m['ret'] is not None and m['ret'] <= k:
                acked = i + 1
        out = {acked}
        if acked < len(self.marks):
            f = self.marks[acked]['invoke']
            if (f <= k) if torn else (f < k):
                out.add(acked + 1)
        return acked, out

    def prefix(self, p):
        m = self.prefix_models.get(p)
        if m is None:
            m = self.prefix_models[p] = Log(self.model.txns[:p])
        return m

    def check(self, img, k, torn, deep, where, nested=False):
        from ZODB.FileStorage import FileStorage
        self.evals += 1
        rsim = self.rsim
        rsim.fs = img
        img.sim = rsim
        ctx.activate(rsim)
        snap = None
        if deep and not nested:
            # crash during recovery: the recovery's own low-level
            # operations are logged and cut below
            snap = img.snapshot()
            del img.log[:]
        idx = PATH + '.index'
        ib = None
        if deep and not nested and idx in img.names:
            ib = bytes(img.names[idx].data)
        try:
            self.check1(img, k, torn, deep, where)
        finally:
            if snap is not None:
                rlog = [op for op in img.log]
                self.crash_in_recovery(snap, rlog, k, torn, where)
                if ib:
                    self.torn_index(snap, ib, k, torn, where)

    def torn_index(self, snap, ib, k, torn, where):
        """Power loss: the index file is renamed into place without an
        fsync of its contents, so after a machine stop it may be empty or
        cut short beside the (synced) data file."""
        r = random.Random(ctx.subseed(self.case['seed'], 'tornidx', k))
        if r.random() > 0.3:
            return
        for n in sorted({0, r.randrange(len(ib)), len(ib) - 1}):
            s2 = {'files': dict(snap['files']),
                  'inodes': dict(snap['inodes']),
                  'dirs': set(snap['dirs']),
                  'next_ino': snap['next_ino'] + 10}
            ino = snap['next_ino'] + 1
            s2['files'][PATH + '.index'] = ino
            s2['inodes'][ino] = ib[:n]
            self.bump('torn_index_images')
            self.check(simfs.SimFS.from_snapshot(
                s2, None, self.case['bufsize']), k, torn, False,
                '%s, index file cut to %d of %d bytes (contents never '
                'synced)' % (where, n, len(ib)), nested=True)

    def crash_in_recovery(self, snap, rlog, k, torn, where):
        """The machine stops again while the crash image is being
        reopened (recovery truncating the tail, the fresh commit of the
        deep check, the index being saved): the second recovery is judged
        by the same oracle."""
        data_ino = snap['files'].get(PATH)
        muts = [i for i, op in enumerate(rlog)
                if op[0] in ('write', 'truncate') and op[1] == data_ino]
        if not muts or rlog[muts[0]][0] != 'truncate':
            # the image needed no repair
            return
        # only up to the first mutation by the deep check's fresh commit:
        # recovery itself truncates; everything after the first write is
        # a new transaction the model does not know
        first_write = next((i for i in muts if rlog[i][0] == 'write'),
                           len(rlog))
        self.bump('recoveries_that_mutated')
        if self.stats['recoveries_that_mutated'] % self.case.get(
                'nest_every', 4):
            return
        rep = simfs.Replayer(snap, rlog)
        for j in range(1, min(first_write, len(rlog)) + 1):
            rep.advance(j)
            self.bump('crash_in_recovery_images')
            self.check(rep.image(bufsize=self.case['bufsize']), k, torn,
                       False, '%s, then crash in recovery after its op '
                       '%d/%d' % (where, j, len(rlog)), nested=True)

    def check1(self, img, k, torn, deep, where):
        from ZODB.FileStorage import FileStorage
        rsim = self.rsim
        acked, allowed = self.allowed(k, torn is not None)
        if self.marks and k > self.marks[0]['invoke'] - 3:
            # distinct crash images (data file bytes *before* recovery)
            pre = img.read_bytes(PATH) if PATH in img.names else b''
            self.seen.add((zlib.crc32(pre) << 20) ^ len(pre))
        try:
            st = FileStorage(PATH)
        except Exception as e:      # noqa: B902
            self.flag('recovery-raises' + getattr(self, 'fam', ''),
                      '%s: FileStorage(path) raised %s: %s'
                      % (where, type(e).__name__, str(e)[:80]))
            return
        try:
            b = img.read_bytes(PATH)
            try:
                hist, end, problems = fsparse.to_history(b)
            except fsparse.Bad as e:
                self.flag('recovered-file', '%s: %s' % (where, e))
                return
            if problems:
                self.flag('recovered-file', '%s: %s' % (where, problems[0]))
            if end != len(b):
                self.flag('recovered-garbage', '%s: %d bytes remain after '
                          'the last complete transaction once recovery has '
                          'run' % (where, len(b) - end))
            p = len(hist)
            if p not in allowed or hist != self.want_all[:p]:
                if hist == self.want_all[:p]:
                    what = ('%d transactions present, but %d had been '
                            'acknowledged and only %s may be present'
                            % (p, acked, sorted(allowed)))
                    self.flag('lost-or-early-commit', '%s: %s' % (where, what))
                else:
                    self.flag('not-a-prefix', '%s: recovered file is not a '
                              'prefix of the committed history' % where)
                return
            if p > acked:
                self.bump('inflight_present')
            elif len(allowed) > 1:
                self.bump('inflight_absent')
            m = self.prefix(p)
            caps = {'undo': True, 'record_iternext': True, 'last_inv': True}
            bad = sweep(st, m, caps, tag=where + ': ', full=deep)
            for name, msg in bad[:3]:
                self.flag('recovered-query:' + name, msg)
            if deep:
                self.bump('deep_checks')
                self.deep(st, img, m, where)
        finally:
            try:
                st.close()
            except Exception:       # noqa: B902
                pass

    def deep(self, st, img, m, where):
        """A fresh transaction commits; a second reopen gives the same
        state; a read-only open agrees and modifies nothing."""
        from ZODB.Connection import TransactionMetaData
        from ZODB.FileStorage import FileStorage
        from ZODB.utils import p64
        st.close()
        before = img.image()
        # read-only open: agrees with the committed prefix, changes nothing
        try:
            ro = FileStorage(PATH, read_only=True)
            bad = sweep(ro, m, {'undo': True}, tag=where + ' ro: ',
                        full=False)
            ro.close()
            for name, msg in bad[:2]:
                self.flag('recovered-ro-query:' + name, msg)
        except Exception as e:      # noqa: B902
            self.flag('recovery-raises', '%s: read-only open raised %s'
                      % (where, type(e).__name__))
        if img.image() != before:
            self.flag('ro-open-modified', '%s: read-only open changed the '
                      'directory' % where)
        # second read-write reopen: same data file bytes (idempotent)
        try:
            st2 = FileStorage(PATH)
        except Exception as e:      # noqa: B902
            self.flag('recovery-raises', '%s: second reopen raised %s'
                      % (where, type(e).__name__))
            return
        if img.read_bytes(PATH) != before[PATH]:
            self.flag('recovery-not-idempotent', '%s: second reopen changed '
                      'the data file' % where)
        # a fresh transaction commits and everything still matches
        try:
            t = TransactionMetaData(b'after', b'crash', {})
            st2.tpc_begin(t)
            oid = p64(0x7777)
            data = b'fresh-after-crash'
            st2.store(oid, b'\0' * 8, data, '', t)
            st2.tpc_vote(t)
            tid = st2.tpc_finish(t)
            if not tid > m.last_tid():
                self.flag('tid-order', '%s: tid after recovery %r not later '
                          'than %r' % (where, tid, m.last_tid()))
            got = st2.load(oid)
            if got != (data, tid):
                self.flag('post-recovery-commit', '%s: fresh commit reads '
                          'back %r' % (where, got))
            bad = sweep(st2, m, {}, oids=m.oids(), tag=where + ' after '
                        'fresh commit: ', full=False)
            for name, msg in bad[:2]:
                if name != 'lastTransaction':
                    self.flag('post-recovery-query:' + name, msg)
        except Exception as e:      # noqa: B902
            self.flag('post-recovery-commit', '%s: fresh commit raised %s: %s'
                      % (where, type(e).__name__, str(e)[:60]))
        finally:
            try:
                st2.close()
            except Exception:       # noqa: B902
                pass


def run(case):
    tier = case.get('tier', 'quick')
    sim = ctx.activate(ctx.Sim(case['seed'], bufsize=case['bufsize'],
                               clock={'tick': case['tick']}))
    d = Driver(sim, 'file', path=PATH)
    snap0 = sim.fs.snapshot()
    del sim.fs.log[:]
    viol = []
    try:
        for op in case['ops']:
            d.execute(op)
        d.close()
    except Violation:
        pass
    except Exception as e:          # noqa: B902
        viol.append(('history-raises', '%s: %s' % (type(e).__name__,
                                                   str(e)[:80])))
    viol.extend(d.viol)
    log = list(sim.fs.log)
    marks = d.marks
    model = d.model
    data_ino = snap0['files'][PATH]

    # fsync before acknowledgement
    for i, mk in enumerate(marks):
        if mk['ret'] is None:
            continue
        last_mut = None
        last_sync = None
        for j in range(mk['invoke'], mk['ret']):
            op = log[j]
            if op[0] in ('write', 'truncate') and op[1] == data_ino:
                last_mut = j
            elif op[0] == 'fsync' and op[1] == data_ino:
                last_sync = j
        # every data-file write since the previous commit must be synced
        if last_sync is None or (last_mut is not None
                                 and last_mut > last_sync):
            viol.append(('fsync-before-ack', 'commit #%d returned without '
                         'an fsync of the data file after its last write'
                         % (i + 1)))
            break

    rec = Recovery(case, model, marks, sim.clock.now)
    rec.viol = viol
    rep = simfs.Replayer(snap0, log)
    r = random.Random(ctx.subseed(case['seed'], 'cuts'))
    deep_every = case.get('deep_every', 13)
    ncut = 0
    windows = set()
    for mk in marks:
        if mk['ret'] is not None:
            windows.update(range(mk['invoke'], mk['ret'] + 1))
    tmp_inos = set()
    synced = bytes(snap0['inodes'][data_ino])
    acks = {mk['ret'] for mk in marks if mk['ret'] is not None}
    overwritten = False
    size_before = len(synced)
    for k in range(len(log) + 1):
        rep.advance(k)
        op = log[k - 1] if k else None
        if op is not None and op[0] == 'fsync' and op[1] == data_ino:
            synced = bytes(rep.inodes[data_ino])
            overwritten = False
        if op is not None and op[1] == data_ino and (
                op[0] == 'truncate' or
                (op[0] == 'write' and op[2] < size_before)):
            # something other than an append since the last fsync (the
            # status byte of tpc_finish, an abort's truncate): an image
            # that has it but not the appended bytes needs reordering
            overwritten = True
        if data_ino in rep.inodes:
            size_before = len(rep.inodes[data_ino])
        if k in acks and PATH in rep.files:
            # power loss right after a commit returned: every write to
            # the data file that was not followed by an fsync is lost
            img = rep.image(bufsize=case['bufsize'])
            img.names[PATH].data = bytearray(synced)
            rec.bump('power_loss_images')
            rec.check(img, k, None, False, 'power loss after op %d/%d '
                      '(un-synced data-file writes lost)' % (k, len(log)))
        if op is not None and op[0] == 'write' and op[1] == data_ino \
                and PATH in rep.files and not overwritten \
                and len(rep.inodes[data_ino]) > len(synced):
            # power loss with the new file length on disk before the data
            # (delayed allocation, data=writeback): what was appended
            # since the last fsync reads as zeros -- all of it, or all of
            # it behind a block boundary / a random point
            cur = rep.inodes[data_ino]
            n0, n1 = len(synced), len(cur)
            pts = {n0}
            b4 = (n0 // 4096 + 1) * 4096
            if b4 < n1:
                pts.add(b4)
            if n1 - n0 > 2 and r.random() < 0.5:
                pts.add(r.randrange(n0 + 1, n1))
            if n1 - n0 > 23 and r.random() < 0.3:
                pts.add(n0 + r.randrange(1, 24))    # inside the header
            for j in sorted(pts):
                img = rep.image(bufsize=case['bufsize'])
                img.names[PATH].data = bytearray(
                    synced + bytes(cur[n0:j]) + b'\0' * (n1 - j))
                rec.bump('zero_tail_images')
                # (known finding: zeros that begin inside the length or
                # status field of the un-synced transaction's header --
                # its id and possibly a plausible length are there, the
                # 'c' status is not)
                rec.fam = '/zeros-from-inside-header-length-or-status' \
                    if 8 < j - n0 <= 16 else ''
                try:
                    rec.check(img, k, None, False, 'power loss after op '
                              '%d/%d (file length %d on disk, bytes from %d '
                              'on read as zeros)' % (k, len(log), n1, j))
                finally:
                    rec.fam = ''
        if op is not None and op[0] == 'create' and op[1].endswith('.tmp'):
            tmp_inos.add(op[2])
        skip = (op is not None and op[0] in ('write', 'truncate')
                and (op[1] in tmp_inos
                     or op[1] == snap0['files'].get(PATH + '.tmp')))
        if not skip:
            ncut += 1
            deep = (ncut % deep_every == 0) or (k in windows)
            rec.check(rep.image(bufsize=case['bufsize']), k, None, deep,
                      'cut after op %d/%d' % (k, len(log)))
        if k < len(log):
            nxt = log[k]
            if nxt[0] == 'write' and nxt[1] == data_ino:
                for j in torn_points(len(nxt[3]), nxt[3], r, tier):
                    ncut += 1
                    deep = (ncut % deep_every == 0)
                    rec.check(rep.image(torn=j, bufsize=case['bufsize']), k,
                              j, deep, 'cut inside op %d/%d at byte %d/%d'
                              % (k, len(log), j, len(nxt[3])))
        if len(rec.viol) >= 20:
            break
    ctx.activate(sim)
    stats = {'sim_time_s': sim.clock.elapsed(), 'commits': len(model.txns),
             'log_ops': len(log), 'cuts': rec.evals}
    stats.update(rec.stats)
    for o in d.outcomes:
        stats['outcome:' + o] = stats.get('outcome:' + o, 0) + 1
    return {
        'violations': [{'oracle': o, 'detail': x} for o, x in rec.viol[:20]],
        'stats': stats,
        'keys': ['%x' % h for h in rec.seen] if len(model.txns) >= 1 else [],
        'evals': max(rec.evals, 1),
        'sample': {'ops': case['ops'], 'outcomes': d.outcomes,
                   'log_ops': len(log), 'cuts': rec.evals,
                   'finish_windows': [(m['invoke'], m['ret'])
                                      for m in marks]},
        'digest': sim.digest(d.outcomes, rec.viol, rec.evals,
                             sorted(rec.seen)),
    }


LEVEL_TEXT = ('per sampled history, every crash point the property names is '
              'enumerated (every prefix of the op log; byte prefixes of '
              'data-file writes, all of them for short writes and a seeded '
              'subset for long ones) and each crash image is reopened with '
              'the real recovery code and compared with the model prefix by '
              'an independent parser and through the storage API; the order '
              'of fsync and acknowledgement is read off the op log and '
              'checked by the image in which every un-synced data-file write '
              'is lost at each acknowledgement.  For a seeded subset: a '
              'second crash inside the recovery itself, and an index file '
              'whose never-synced contents are empty or cut short.  '
              'Histories are sampled by seed.')
LEVEL_NOTE = ('crash model = prefix of issued low-level operations plus one '
              'torn write (the property\'s quantifier), or all un-synced '
              'data-file writes lost; arbitrary subsets/reorderings of '
              'un-synced writes are not explored (FileStorage issues one '
              'fsync per commit and relies on their order), no '
              'directory-entry loss; trusted: op log '
              'of simfs, reference model, fsparse; long writes are cut at a '
              'sampled subset of byte offsets')
TECHNIQUE = ('deterministic simulation: recorded low-level op log, '
             'enumerated crash/torn-write images, recovery compared with '
             'reference-model prefixes')
