"""C11 -- in-memory objects follow the outcome of their transaction (DESIGN
§6 C11)."""

import random

from .. import connshadow as CS

ID = 'C11'
LEVEL = 'exploration'
RULE = ('one run = one seeded program on one Connection (plus an observer '
        'connection) over FileStorage (simulated disk), MappingStorage or '
        'DemoStorage: modify custom objects / persistent mappings / '
        'persistent lists, create and attach (implicit add), conn.add '
        '(explicit), detach, commit, abort, commits that fail at a chosen '
        'phase (conflict made by the observer; a second participant failing '
        'in tpc_begin / commit / tpc_vote before or after the connection; '
        'an injected ENOSPC at a chosen raw write of the commit; an '
        'over-long note), close while joined and not, reopen; a plain-'
        'Python shadow predicts after every step the value, ownership '
        '(_p_oid/_p_jar), cleanliness and serial of every object and the '
        'exact set of records each commit stores; non-trivial = >= 1 failed '
        'or aborted transaction with new objects or >= 2 commits; distinct '
        '= op trace')
BUDGET = {'quick': {'runs': 12000, 'wall': 300, 'chunk': 25},
          'thorough': {'runs': 1200000, 'wall': 1200, 'chunk': 200}}
ASSUMPTIONS = [
    'the object cache is large enough that no new object saved by a '
    'savepoint is evicted (an evicted one keeps its state only in the '
    'temporary store and cannot keep it when it is un-added)',
    'an object that was a plain Python object (never added) keeps whatever '
    'attribute values it has after an abort; only ownership is checked',
]
SHRINK = ['ops']


def gen(seed, tier):
    r = random.Random(seed)
    kind = r.choice(('file', 'file', 'mapping', 'demo:mapping:mapping'))
    # a third of the programs also take savepoints (rollbacks are C12's):
    # the outcome of a transaction must reach objects whose changes were
    # already moved to the temporary store
    sp = r.random() < 0.35
    ops = CS.gen_program(r, r.randint(4, 30), sp, kind)
    if sp:
        ops = [op for op in ops if op[0] != 'rb' or r.random() < 0.3]
    return {'kind': kind, 'ops': ops, 'savepoints': sp,
            # (small: the clean-up at a savepoint evicts objects -- also
            # new ones it has just saved)
            'cache_size': 400 if r.random() < 0.8 else r.choice((1, 3)),
            'look_after_sp': r.random() < 0.5,
            'bufsize': r.choice((64, 8192)), 'tier': tier}


def result(m, case, prefix):
    stats = {'sim_time_s': m.sim.clock.elapsed(),
             'kind:' + case['kind']: 1, 'objects': len(m.sos),
             'commits': len(m.log.txns)}
    for t in m.trace:
        stats['op:' + t] = stats.get('op:' + t, 0) + 1
    nontrivial = stats.get('op:commit', 0) >= 2 or any(
        t.startswith('fail') or t in ('abort', 'rb') for t in m.trace)
    return {
        'violations': [{'oracle': o, 'detail': x} for o, x in m.viol[:20]],
        'stats': stats,
        'keys': ['%s|%s|%s' % (prefix, case['kind'], ','.join(m.trace))]
        if nontrivial else [],
        'evals': 1,
        'sample': {'kind': case['kind'], 'ops': case['ops'],
                   'trace': m.trace},
        'digest': m.sim.digest(m.trace, m.viol),
    }


def run(case):
    m = CS.run_program(case, bool(case.get('savepoints')))
    return result(m, case, 'c11')


LEVEL_TEXT = ('seeded search over programs on real Connection/serialize/'
              'transaction code with injected commit failures at every '
              'phase (second participant, conflict from a second '
              'connection, ENOSPC at a raw write on the simulated disk); a '
              'reference model (plain-Python shadow) predicts object '
              'state, ownership and the stored record set after each step.')
LEVEL_NOTE = ('single thread; the observer connection runs between steps; '
              'programs <= 30 ops; trusted: the shadow model')
TECHNIQUE = ('deterministic simulation: seeded programs with injected '
             'commit failures (participants, conflicts, disk faults), '
             'shadow reference model of objects and stored records')
