"""C12 -- savepoint rollback restores the savepoint state exactly, any
number of times (DESIGN §6 C12)."""

import random

from .. import connshadow as CS
from . import c11

ID = 'C12'
LEVEL = 'exploration'
RULE = ('one run = one seeded program as in C11 extended by savepoints and '
        'rollbacks in any order the transaction API allows (repeated '
        'rollbacks to one savepoint, rollbacks after further savepoints, '
        'rollbacks to savepoints invalidated by an earlier rollback must '
        'raise), followed by commit / abort / failing commit; the shadow '
        'snapshots every object (value, references, ownership) at each '
        'savepoint and predicts the state after each rollback, the records '
        'of the final commit and that the temporary savepoint store is '
        'gone afterwards; an observer connection must never see savepoint '
        'data; non-trivial = >= 1 rollback; distinct = op trace')
RULE += ('  '
         'Later addition: one run in five with an object cache of 1 or '
         '3 objects (evictions at savepoints), half of them without '
         'looking at the objects right after a savepoint. ')
BUDGET = {'quick': {'runs': 12000, 'wall': 300, 'chunk': 25},
          'thorough': {'runs': 900000, 'wall': 1200, 'chunk': 200}}
ASSUMPTIONS = [
    'four runs in five use an object cache large enough that nothing is '
    'evicted inside a transaction; the fifth uses cache_size 1 or 3 (the '
    'clean-up at a savepoint then evicts objects, also new ones it has '
    'just saved) and half of those do not look at the objects right '
    'after a savepoint (looking would re-activate them)',
    'honest scope: this property has no schedule or crash dimension; what '
    'is sampled is the program space, the commit-failure point and the '
    'second party\'s view (DESIGN section 6, C12)',
    'an object that was a plain Python object when the savepoint was taken '
    'is un-added by the rollback; its attribute values are not reverted',
]
SHRINK = ['ops']


def gen(seed, tier):
    r = random.Random(seed)
    kind = r.choice(('file', 'file', 'mapping', 'demo:mapping:mapping'))
    return {'kind': kind, 'ops': CS.gen_program(r, r.randint(4, 30),
                                                 True, kind),
            # (small: the clean-up at a savepoint evicts objects -- also
            # new ones it has just saved)
            'cache_size': 400 if r.random() < 0.8 else r.choice((1, 3)),
            'look_after_sp': r.random() < 0.5,
            'bufsize': r.choice((64, 8192)), 'tier': tier}


def run(case):
    m = CS.run_program(case, True)
    res = c11.result(m, case, 'c12')
    if 'rb' not in m.trace:
        res['keys'] = []
    return res


LEVEL_TEXT = ('seeded search over programs mixing modifications, additions, '
              'savepoints, rollbacks, commits, aborts and failing commits '
              'on real Connection/TmpStore/transaction code; a reference '
              'model snapshots every object at each savepoint and is '
              'compared after each rollback and commit; a second '
              'connection observes between steps.')
LEVEL_NOTE = ('no schedule/crash dimension (see assumptions); blob writes '
              'inside savepoints are exercised by C13; programs <= 30 ops; '
              'trusted: the shadow model')
TECHNIQUE = ('deterministic simulation (stateful program search with '
             'injected commit failures and a second party), shadow '
             'reference model with savepoint snapshots')
