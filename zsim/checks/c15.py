"""C15 -- historical connections read exactly the chosen past state and
cannot write (DESIGN §6 C15)."""

import datetime
import random

from persistent.TimeStamp import TimeStamp
from ZODB.POSException import POSKeyError
from ZODB.POSException import ReadOnlyError
from ZODB.POSException import ReadOnlyHistoryError
from ZODB.POSException import UndoError
from ZODB.utils import p64
from ZODB.utils import u64

from .. import ctx
from .. import dbh
from .. import objs
from ..model import UNCREATE
from ..model import Log
from ..model import undo_id

ID = 'C15'
LEVEL = 'exploration'
RULE = ('one run = one seeded history through a live connection on a DB '
        'over FileStorage (simulated disk), MappingStorage or DemoStorage '
        '(over mapping or file; optionally the leading operations are '
        'committed to the base alone, which is then reopened and wrapped, so '
        'that historical points fall into the base\'s own history) '
        '(modify, create, drop from the root, undo incl. undo of a '
        'creation, pack to an older time), with the simulated clock spacing '
        'the commits; then historical connections are opened at every '
        'transaction in every input form (at= / before= x raw id, id+1, '
        'naive and timezone-aware datetime between two transactions) '
        '(in 30 % of the file/mapping runs with a second database of a '
        'multi-database, written in the same and in separate transactions '
        'and read through get_connection, points also given as ids of its '
        'transactions) through a small historical pool; while each is '
        'open the live '
        'connection keeps '
        'committing and the storage is packed to older times, the '
        'historical connection re-reads across boundaries and cache '
        'minimisation; oracle: every value equals the model state at the '
        'bound, objects created later are absent, writes raise '
        'ReadOnlyHistoryError / ReadOnlyError, bounds in the future raise '
        'ValueError; one evaluation = one historical open; non-trivial = '
        'the bound lies before the last transaction; distinct = (kind, '
        'history hash, form, index)')
RULE += ('  '
         'Later additions: reopen with the wall clock behind the '
         'newest transaction (file kind); packs are only made when the '
         'float pack time still lies before the chosen point. ')
BUDGET = {'quick': {'runs': 4000, 'wall': 300, 'chunk': 10},
          'thorough': {'runs': 300000, 'wall': 1200, 'chunk': 50}}
ASSUMPTIONS = [
    'points older than the last pack are not opened (the property excludes '
    'them)',
]
SHRINK = ['ops', 'later']


def gen(seed, tier):
    r = random.Random(seed)
    kind = r.choice(('file', 'file', 'file', 'file', 'mapping',
                     'demo:mapping:mapping', 'demo:file:mapping',
                     'demo:file:file'))

    def ops(n):
        out = []
        for _ in range(n):
            x = r.random()
            if x < 0.5:
                out.append(['w', [r.randrange(6)
                                  for _ in range(r.choice((1, 1, 2)))]])
            elif x < 0.68:
                out.append(['new'])
            elif x < 0.78:
                out.append(['drop', r.randrange(6)])
            elif x < 0.92 and kind == 'file':
                out.append(['undo', -1 - r.randrange(3)])
            else:
                out.append(['w', [r.randrange(6)]])
        return out
    nops = r.randint(2, 9)
    # a second database of a multi-database: the historical connection
    # reaches it through get_connection / cross-database navigation and
    # must show it at the same point
    multi = kind in ('file', 'mapping') and r.random() < 0.3
    the_ops = ops(nops)
    the_later = ops(r.randint(1, 4))
    if multi:
        for lst in (the_ops, the_later):
            for i in range(len(lst)):
                if r.random() < 0.4:
                    lst[i] = ['wx', r.randrange(3), r.random() < 0.4]
    if kind == 'file' and not multi and r.random() < 0.3:
        # the database is closed and reopened while the wall clock is
        # behind its newest transaction (stepped back, or written under a
        # fast clock): later commits still come after everything there
        the_ops.insert(r.randrange(len(the_ops) + 1),
                       ['reopen_back', r.choice((5, 600, 86400))])
    return {'kind': kind, 'ops': the_ops, 'multi': multi,
            # demo kinds: this many leading operations are committed to
            # the base storage alone, before it is wrapped (the base then
            # has a history of its own that historical points fall into)
            'base_n': r.choice((0, 0, 1, 2, nops // 2, nops))
            if kind.startswith('demo') else 0,
            'later': the_later,
            'pack': r.random() < 0.5,
            'hist_pool': r.choice((1, 2, 3)),
            'hist_timeout': r.choice((1 << 30, 5)),
            'cache_size': r.choice((0, 400)),
            'bufsize': r.choice((64, 8192)),
            'tick': r.choice((0.37, 0.0003, 45.0)), 'tier': tier}


def run(case):
    sim = ctx.activate(ctx.Sim(case['seed'], bufsize=case['bufsize'],
                               clock={'tick': case['tick']}))
    db_opts = dict(cache_size=case['cache_size'],
                   historical_pool_size=case['hist_pool'],
                   historical_timeout=case['hist_timeout'])
    base_n = case.get('base_n', 0) if case['kind'].startswith('demo') else 0
    if base_n:
        # phase 1: a database on the future base storage alone
        from ZODB.FileStorage import FileStorage
        from ZODB.MappingStorage import MappingStorage
        bk = case['kind'].split(':')[1]
        base = FileStorage('/sim/Base.fs') if bk == 'file' \
            else MappingStorage('base')
        db = dbh.make_db(sim, bk, storage=base, **db_opts)
    else:
        if case.get('multi'):
            db_opts = dict(db_opts, databases={}, database_name='main')
        db = dbh.make_db(sim, case['kind'],
                         st_opts={'pack_gc': False}
                         if case['kind'] == 'file' else None, **db_opts)
    st = db.storage
    aux = None
    log2 = Log()
    if case.get('multi'):
        from ZODB.FileStorage import FileStorage
        from ZODB.MappingStorage import MappingStorage
        aux = dbh.make_db(
            sim, 'x', storage=FileStorage('/sim/Aux.fs')
            if case['kind'] == 'file' else MappingStorage('aux'),
            **dict(db_opts, database_name='aux'))
    log = Log()
    viol = []
    keys = []
    stats = {}
    evals = 0
    counter = [0]
    commit_log = []
    names = {}          # cell name -> oid

    def flag(o, x):
        if len(viol) < 20:
            viol.append((o, x))

    def tok():
        counter[0] += 1
        return counter[0]

    def adopt():
        if hasattr(st, 'changes'):
            n = 0
            if not log.txns:
                n += dbh.adopt(log, st.base)
            n += dbh.adopt(log, st.changes)
        else:
            n = dbh.adopt(log, st)
        for t in log.txns[len(log.txns) - n:]:
            commit_log.append(t.tid)
        return n

    A = dbh.Client(db, 'A')

    def live(op):
        A.begin()
        root = A.root()
        k = op[0]
        try:
            if k == 'w':
                cs = sorted(n for n in root.keys() if n.startswith('c'))
                if not cs:
                    k = 'new'
                for i in op[1] if k == 'w' else ():
                    c = root[cs[i % len(cs)]]
                    t = tok()
                    c.token = t
            if k == 'new':
                n = 'c%d' % tok()
                c = objs.Cell(tok())
                root[n] = c
            elif k == 'drop':
                cs = sorted(n for n in root.keys() if n.startswith('c'))
                if cs:
                    del root[cs[op[1] % len(cs)]]
            elif k == 'undo':
                cand = commit_log[1:]    # never the creation of the root
                if not cand:
                    A.abort()
                    return
                db.undo(undo_id(cand[op[1] % len(cand)]), A.tm.get())
            elif k == 'wx' and aux is not None:
                xroot = A.conn.get_connection('aux').root()
                n = 'x%d' % op[1]
                if n in xroot:
                    xroot[n].token = tok()
                else:
                    xroot[n] = objs.Cell(tok())
                if op[2]:
                    cs = sorted(n for n in root.keys() if n.startswith('c'))
                    if cs:
                        root[cs[0]].token = tok()
            A.commit()
        except UndoError:
            A.abort()
        except POSKeyError as e:
            # an undo may bring back a reference to an object whose
            # creation was undone as well (a documented hazard of undo):
            # the application then cannot load it.  Anything else missing
            # is reported.
            A.abort()
            oid = e.args[0] if e.args else None
            if not isinstance(oid, bytes):
                raise
            cur = log.state_before(oid, b'\xff' * 8)
            if cur is not None and cur[1].kind != UNCREATE:
                raise
            stats['live_write_to_dangling'] = \
                stats.get('live_write_to_dangling', 0) + 1
        adopt()
        if aux is not None:
            dbh.adopt(log2, aux.storage)
        for n, c in A.root().items():
            if n.startswith('c') and c._p_oid is not None:
                names[n] = c._p_oid

    def wrap_base():
        """phase 2: the base is closed, reopened and wrapped."""
        from ZODB.DemoStorage import DemoStorage
        from ZODB.FileStorage import FileStorage
        from ZODB.MappingStorage import MappingStorage
        A.abort()
        A.close()
        _, bk, ck = case['kind'].split(':')
        if bk == 'file':
            db.close()
            b = FileStorage('/sim/Base.fs', read_only=True)
        else:
            b = st          # (a MappingStorage lives in memory only)
            db.close()
            b._opened = True
        c = FileStorage('/sim/Changes.fs') if ck == 'file' \
            else MappingStorage('changes')
        st2 = DemoStorage(base=b, changes=c)
        db2 = dbh.make_db(sim, case['kind'], storage=st2, **db_opts)
        A2 = dbh.Client(db2, 'A')
        A2.open()
        stats['base_with_history'] = 1
        return st2, db2, A2

    def expected(bound):
        """{name: token} of the root's cells in the state before `bound`,
        or None if the root does not exist yet."""
        sb = log.state_before(b'\0' * 8, bound)
        if sb is None or sb[1].kind == UNCREATE:
            return None
        _, state = objs.decode_record(sb[1].data)
        out = {}
        for name, ref in state.get('data', {}).items():
            if not name.startswith('c'):
                continue
            oid = ref.key[1]
            cb = log.state_before(oid, bound)
            if cb is None or cb[1].kind == UNCREATE:
                out[name] = ('missing', oid)
            else:
                out[name] = dbh.token_of(cb[1].data)
        return out

    def expected_aux(bound):
        sb = log2.state_before(b'\0' * 8, bound)
        if sb is None or sb[1].kind == UNCREATE:
            return None
        _, state = objs.decode_record(sb[1].data)
        out = {}
        for name, ref in state.get('data', {}).items():
            if not name.startswith('x'):
                continue
            cb = log2.state_before(ref.key[1], bound)
            if cb is None or cb[1].kind == UNCREATE:
                out[name] = ('missing', ref.key[1])
            else:
                out[name] = dbh.token_of(cb[1].data)
        return out

    def read_aux(H):
        out = {}
        for n, c in H.conn.get_connection('aux').root().items():
            if not n.startswith('x'):
                continue
            try:
                out[n] = c.token
            except POSKeyError:
                out[n] = ('missing', c._p_oid)
        return out

    def read(H):
        out = {}
        for n, c in H.root().items():
            if not n.startswith('c'):
                continue
            try:
                out[n] = c.token
            except POSKeyError:
                out[n] = ('missing', c._p_oid)
        return out

    try:
        A.open()
        A.begin()
        A.root()['c0'] = objs.Cell(tok())
        A.commit()
        adopt()
        for i, op in enumerate(case['ops']):
            if base_n and i == min(base_n, len(case['ops'])):
                st, db, A = wrap_base()
            if op[0] == 'reopen_back':
                if case['kind'] == 'file' and not case.get('multi'):
                    A.abort()
                    A.close()
                    db.close()
                    sim.clock.advance(-op[1])
                    db = dbh.make_db(sim, 'file',
                                     st_opts={'pack_gc': False}, **db_opts)
                    st = db.storage
                    A = dbh.Client(db, 'A')
                    A.open()
                    stats['reopened_with_clock_behind'] = 1
                continue
            live(op)
        if base_n and hasattr(st, 'changes') is False:
            st, db, A = wrap_base()
        tids = list(log.tids())
        last_pack_stop = b'\0' * 8
        # candidate points
        points = []
        for i, tid in enumerate(tids):
            points.append(('at-raw', i, {'at': tid}, p64(u64(tid) + 1)))
            points.append(('before-raw', i, {'before': tid}, tid))
            points.append(('before-raw+1', i,
                           {'before': p64(u64(tid) + 1)}, p64(u64(tid) + 1)))
            if i + 1 < len(tids):
                t1 = TimeStamp(tid).timeTime()
                t2 = TimeStamp(tids[i + 1]).timeTime()
                if t2 - t1 > 5e-6:
                    mid = (t1 + t2) / 2
                    dt = datetime.datetime.fromtimestamp(
                        mid, datetime.timezone.utc).replace(tzinfo=None)
                    # (computed here, not with ZODB.DB.toTimeStamp)
                    raw = TimeStamp(dt.year, dt.month, dt.day, dt.hour,
                                    dt.minute, dt.second
                                    + dt.microsecond / 1000000.0).raw()
                    if tid < raw < tids[i + 1]:
                        points.append(('at-datetime', i, {'at': dt},
                                       p64(u64(raw) + 1)))
                        points.append(('before-datetime', i, {'before': dt},
                                       raw))
                        # the same instant as a timezone-aware datetime
                        # (DB.open documents these as supported)
                        rz = random.Random(ctx.subseed(case['seed'], 'tz', i))
                        off = rz.choice((0, 120, -300, 330, -570, 765))
                        adt = datetime.datetime.fromtimestamp(
                            mid, datetime.timezone(
                                datetime.timedelta(minutes=off)))
                        points.append(('at-aware', i, {'at': adt},
                                       p64(u64(raw) + 1)))
                        points.append(('before-aware', i, {'before': adt},
                                       raw))
        if aux is not None:
            # points given as ids of the *other* database's transactions
            for i, tid in enumerate(log2.tids()):
                if tids and tid < tids[-1]:
                    points.append(('before-raw-aux', i, {'before': tid},
                                   tid))
                    points.append(('at-raw-aux', i, {'at': tid},
                                   p64(u64(tid) + 1)))
        r = random.Random(ctx.subseed(case['seed'], 'points'))
        r.shuffle(points)
        later = list(case['later'])
        import zlib
        hh = zlib.crc32(repr(case['ops']).encode())
        for form, i, kw, bound in points[:18]:
            if bound <= last_pack_stop:
                continue
            evals += 1
            stats['form:' + form] = stats.get('form:' + form, 0) + 1
            H = dbh.Client(db, 'H')
            try:
                H.open(**kw)
            except Exception as e:      # noqa: B902
                flag('historical-open-raises', '%s at transaction %d: %s: '
                     '%s' % (form, i, type(e).__name__, str(e)[:80]))
                continue
            if bound <= tids[-1]:
                keys.append('%s|%x|%s|%d' % (case['kind'], hh, form, i))
            want = expected(bound)
            where = '%s #%d' % (form, i)
            try:
                if want is None:
                    try:
                        got = read(H)
                        if got:
                            flag('historical-state', '%s: root did not '
                                 'exist yet but %r is readable'
                                 % (where, got))
                    except (POSKeyError, KeyError):
                        pass
                else:
                    got = read(H)
                    if got != want:
                        flag('historical-state', '%s: reads %r, the state '
                             'at that point was %r' % (where, got, want))
                    if aux is not None:
                        wantx = expected_aux(bound)
                        if wantx is not None:
                            try:
                                gotx = read_aux(H)
                            except ValueError as e:
                                # each database refuses points later than
                                # its own newest transaction ("in the
                                # future"): by design, also when reached
                                # from a historical connection
                                x2 = log2.tids()
                                if 'future' in str(e) and x2 and \
                                        bound > p64(u64(x2[-1]) + 1):
                                    gotx = wantx
                                    stats['aux_refuses_later_point'] = \
                                        stats.get('aux_refuses_later_point',
                                                  0) + 1
                                else:
                                    gotx = 'ValueError: %s' % str(e)[:60]
                            except Exception as e:      # noqa: B902
                                gotx = '%s: %s' % (type(e).__name__,
                                                   str(e)[:60])
                            if gotx != wantx:
                                flag('historical-state', '%s: database '
                                     "'aux' reached through the "
                                     'historical connection reads %r, its '
                                     'state at that point was %r'
                                     % (where, gotx, wantx))
                    # live commits and packs in between
                    if later:
                        live(later.pop(0))
                    if case['pack'] and i > 0:
                        # pack to a time older than the chosen point
                        older = [t for t in tids if t < bound]
                        if len(older) >= 2:
                            pt = TimeStamp(older[-2]).timeTime()
                            stop = TimeStamp(
                                *__import__('time').gmtime(pt)[:5]
                                + (pt % 60,)).raw()
                            # (ids one tick apart -- after a reopen with
                            # the clock behind -- are closer than a float
                            # time resolves: the pack time must still lie
                            # before the chosen point)
                            if stop >= bound:
                                older = []
                        if len(older) >= 2:
                            try:
                                db.pack(pt)
                                last_pack_stop = max(last_pack_stop, stop)
                                stats['packs'] = stats.get('packs', 0) + 1
                            except Exception:   # noqa: B902
                                stats['pack_raises'] = \
                                    stats.get('pack_raises', 0) + 1
                    H.conn.cacheMinimize()
                    got2 = read(H)
                    H.begin()
                    got3 = read(H)
                    if got2 != want or got3 != want:
                        flag('historical-state-moves', '%s: after live '
                             'commits the historical connection reads %r '
                             '/ %r, the state at that point was %r'
                             % (where, got2, got3, want))
                    # writes are refused
                    cs = [c for n, c in H.root().items()
                          if n.startswith('c')]
                    if cs and not isinstance(want.get(
                            sorted(want)[0]) if want else None, tuple):
                        H.begin()
                        c = H.root()[sorted(want)[0]] if want else None
                        if c is not None:
                            try:
                                c.token = -1
                                H.commit()
                            except ReadOnlyHistoryError:
                                H.abort()
                            except Exception as e:      # noqa: B902
                                flag('historical-write', '%s: commit '
                                     'through a historical connection '
                                     'raised %s' % (where,
                                                    type(e).__name__))
                                H.abort()
                            else:
                                flag('historical-write', '%s: commit '
                                     'through a historical connection '
                                     'succeeded' % where)
                    try:
                        H.conn.new_oid()
                    except ReadOnlyError:
                        pass
                    except Exception as e:      # noqa: B902
                        flag('historical-write', '%s: new_oid raised %s'
                             % (where, type(e).__name__))
                    else:
                        flag('historical-write', '%s: new_oid accepted'
                             % where)
            except Exception as e:      # noqa: B902
                import traceback
                flag('historical-read-raises', '%s: %s: %s | %s' % (
                    where, type(e).__name__, str(e)[:80],
                    ' / '.join(x.strip()[:60] for x in
                               traceback.format_exc().strip()
                               .splitlines()[-4:-1])))
            finally:
                try:
                    H.abort()
                    H.close()
                except Exception as e:          # noqa: B902
                    flag('historical-close-raises', type(e).__name__)
            if r.random() < 0.3:
                sim.clock.advance(10)           # historical pool time-out
        # the future is refused, the present is allowed
        last = log.last_tid()
        for kw, ok in (({'at': last}, True),
                       ({'before': p64(u64(last) + 1)}, True),
                       ({'before': p64(u64(last) + 2)}, False),
                       ({'at': p64(u64(last) + 1)}, False),
                       ({'at': p64(u64(last) + 10 ** 9)}, False)):
            evals += 1
            H = dbh.Client(db, 'F')
            try:
                H.open(**kw)
            except ValueError:
                if ok:
                    flag('present-refused', 'open(%r) raised ValueError '
                         'although it is not in the future' % (kw,))
                continue
            except Exception as e:      # noqa: B902
                flag('future-open', 'open(%r) raised %s' % (
                    kw, type(e).__name__))
                continue
            if not ok:
                flag('future-accepted', 'open(%r) was accepted although '
                     'the point is later than the newest transaction %r'
                     % (kw, last))
            H.abort()
            H.close()
    except Exception as e:          # noqa: B902
        import traceback
        flag('history-raises', '%s: %s | %s' % (
            type(e).__name__, str(e)[:80],
            ' / '.join(x.strip()[:70] for x in
                       traceback.format_exc().strip().splitlines()[-4:-1])))
    finally:
        try:
            A.abort()
            db.close()
        except Exception:       # noqa: B902
            pass
        try:
            if aux is not None:
                aux.close()
        except Exception:       # noqa: B902
            pass
    if case.get('multi'):
        stats['multi_database'] = 1
    stats['sim_time_s'] = sim.clock.elapsed()
    stats['kind:' + case['kind']] = 1
    stats['commits'] = len(log.txns)
    return {
        'violations': [{'oracle': o, 'detail': x} for o, x in viol[:20]],
        'stats': stats, 'keys': keys, 'evals': max(evals, 1),
        'sample': {'kind': case['kind'], 'ops': case['ops'],
                   'later': case['later'], 'pack': case['pack']},
        'digest': sim.digest(repr(sorted(stats.items())), viol),
    }


LEVEL_TEXT = ('seeded search over histories and historical points on real '
              'DB/Connection/historical-adapter code over simulated '
              'storages and a simulated clock; per history up to 14 '
              'historical opens in all input forms, each interleaved with '
              'further live commits, packs to older times, cache '
              'minimisation, boundaries and pool time-outs; values are '
              'compared with the reference model state at the bound.')
LEVEL_NOTE = ('single thread (interleaving at step granularity); <= 14 '
              'transactions; un-creations via undo only on FileStorage; '
              'trusted: reference model, decoder')
TECHNIQUE = ('deterministic simulation: seeded histories under a simulated '
             'clock, historical opens interleaved with live commits and '
             'packs, reference-model state at the bound')
