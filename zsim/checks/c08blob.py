"""C08, blobrace arm: blobs *and* threads in one world.

Committer threads run two-phase commits with blobs directly against a
blob-enabled FileStorage (new objects only, or re-writes of their own
objects when the pack does not collect garbage) while packer threads pack.
Pre-emption points: every lock operation, every raw operation on the
simulated data file, and every mutating operation on the real scratch blob
directory; `os.makedirs` runs level by level with a pre-emption point
between looking at the parent and creating the leaf.

Oracles (after all tasks ended): no task died of an exception, no pack
raised; every blob record the final data file holds has its file with the
bytes its transaction wrote; every committed blob file in the directory
belongs to a record of a transaction that finished (an aborted transaction
leaves nothing behind); nothing is left in the blob temp directory."""

import os
import shutil
import zlib

from .. import ctx
from .. import mvcc
from ..checks import c13

_n = [0]


def gen(r, tier):
    ntask = r.choice((1, 2, 2, 3))
    gc = r.random() < 0.7
    scripts = []
    for _ in range(ntask):
        txns = []
        for _ in range(r.randint(1, 4)):
            txns.append({'n': r.choice((1, 1, 2)),
                         'end': r.choice(('finish', 'finish', 'finish',
                                          'abort', 'abort_after_vote')),
                         'reuse': (not gc) and r.random() < 0.4,
                         'idle': r.randrange(0, 30)})
        scripts.append(txns)
    packers = [{'delay': r.randrange(0, 150),
                'dt': r.choice((0.0, 0.0, 0.3, 5.0))}]
    if r.random() < 0.3:
        packers.append({'delay': r.randrange(0, 250),
                        'dt': r.choice((0.0, 5.0))})
    prefill = r.randint(0, 3)
    if gc and r.random() < 0.5:
        # aim at the end of a pack that empties the blob directory: the
        # only blobs are older than the pack, the committers arrive late
        prefill = r.randint(1, 2)
        packers[0]['delay'] = r.randrange(0, 20)
        late = r.choice((100, 300, 600, 1000))
        for txns in scripts:
            txns[0]['idle'] = r.randrange(0, late)
    return {'arm': 'blobrace', 'kind': 'file', 'ncell': 1, 'scripts': [],
            'bscripts': scripts, 'packers': packers, 'gc': gc,
            'prefill_blobs': prefill,
            'keep_old': r.random() < 0.3,
            'bufsize': r.choice((64, 8192)),
            'sched': mvcc.sched_config(r),
            'tick': r.choice((0.37, 0.37, 1e-7)), 'tier': tier}


def blob_record():
    from ZODB.blob import Blob
    from ZODB.serialize import ObjectWriter
    return ObjectWriter().serialize(Blob())


def commit_blobs(w, name, tx, mine, rec):
    """One two-phase commit with blobs; returns the outcome."""
    from ZODB.Connection import TransactionMetaData
    from ZODB.utils import z64
    st = w.db.storage
    t = TransactionMetaData()
    st.tpc_begin(t)
    stored = []
    try:
        for j in range(tx['n']):
            if tx['reuse'] and mine:
                oid = sorted(mine)[(len(stored) + tx['idle']) % len(mine)]
                if oid in [o for o, _ in stored]:
                    continue
                serial = mine[oid]
            else:
                oid = st.new_oid()
                serial = z64
            w.bcount += 1
            data = (b'%s-%d-' % (name.encode(), w.bcount)) * (
                1 + w.bcount % 5)
            fn = os.path.join(st.temporaryDirectory(),
                              '%s-%d.tmp' % (name, w.bcount))
            with open(fn, 'wb') as f:
                f.write(data)
            st.storeBlob(oid, serial, rec, fn, '', t)
            stored.append((oid, data))
        if tx['end'] == 'abort':
            st.tpc_abort(t)
            return 'aborted'
        st.tpc_vote(t)
        if tx['end'] == 'abort_after_vote':
            st.tpc_abort(t)
            return 'aborted-after-vote'
        tid = st.tpc_finish(t)
    except BaseException:
        try:
            st.tpc_abort(t)
        except Exception:       # noqa: B902
            pass
        raise
    for oid, data in stored:
        mine[oid] = tid
        w.F[(oid, tid)] = data
    return 'finished'


def committer(i, txns, rec):
    def run(w):
        s = w.sim.sched
        mine = {}
        for tx in txns:
            for _ in range(tx['idle']):
                s.yield_point('idle', None)
            o = commit_blobs(w, 'b%d' % i, tx, mine, rec[0])
            w.boutcomes[i].append(o)
    return run


def run(case):
    from . import c08
    _n[0] += 1
    scratch = '/dev/shm/zsim-%d/br%d' % (os.getpid(), _n[0])
    shutil.rmtree(scratch, ignore_errors=True)
    os.makedirs(scratch)
    blob_dir = scratch + '/blobs'
    case = dict(case)
    case['st_opts'] = {'blob_dir': blob_dir, 'pack_gc': case['gc'],
                       'pack_keep_old': case['keep_old']}
    packs = []
    rec = []
    extra = [('packer%d' % i, c08.packer_task(sp, packs))
             for i, sp in enumerate(case['packers'])]
    orig_setup = mvcc.World.setup

    def setup(self):
        orig_setup(self)
        rec.append(blob_record())
        self.F = {}
        self.bcount = 0
        self.boutcomes = [[] for _ in case['bscripts']]
        pre = {}
        for k in range(case['prefill_blobs']):
            commit_blobs(self, 'pre', {'n': 1, 'end': 'finish',
                                       'reuse': False, 'idle': 0},
                         pre, rec[0])
        self.sim.real_yield = True
    mvcc.World.setup = setup
    try:
        extra += [('bcommitter%d' % i, committer(i, tx, rec))
                  for i, tx in enumerate(case['bscripts'])]
        w, s = mvcc.run_world(case, extra)
    finally:
        mvcc.World.setup = orig_setup
    w.sim.real_yield = False
    stats = dict(w.stats)
    try:
        for ev in packs:
            if (ev['outcome'] or '').startswith('raised'):
                w.flag('pack-raised', ev['outcome'])
            stats['pack:' + (ev['outcome'] or 'unfinished')[:7]] = \
                stats.get('pack:' + (ev['outcome'] or 'unfinished')[:7],
                          0) + 1
        if not s.deadlock and not s.capped:
            check(w, blob_dir, stats)
    finally:
        try:
            w.db.close()
        except Exception:       # noqa: B902
            pass
        shutil.rmtree(scratch, ignore_errors=True)
    # the scratch path holds the process id: keep it out of the record
    w.viol[:] = [(o, x.replace(scratch, '<scratch>')) for o, x in w.viol]
    stats['sim_time_s'] = w.sim.clock.elapsed()
    stats['arm:blobrace'] = 1
    for outs in w.boutcomes:
        for o in outs:
            stats['outcome:blob-' + o] = stats.get('outcome:blob-' + o,
                                                   0) + 1
    for k, n in w.sim.probes.items():
        stats['probe:' + k] = n
    trace = zlib.crc32(repr(s.trace).encode())
    return {
        'violations': [{'oracle': o, 'detail': x} for o, x in w.viol[:20]],
        'stats': stats, 'keys': ['b|%x' % trace], 'evals': 1,
        'sample': {'arm': 'blobrace', 'bscripts': case['bscripts'],
                   'packers': case['packers'], 'sched': case['sched'],
                   'packs': [{k: (v if not isinstance(v, bytes) else v.hex())
                              for k, v in ev.items()} for ev in packs],
                   'outcomes': w.boutcomes, 'yield_points': s.steps},
        'digest': w.sim.digest(repr(w.rec.events), w.viol, s.trace,
                               sorted((o.hex(), t.hex())
                                      for o, t in w.F)),
        'schedule': list(s.trace),
    }


def check(w, blob_dir, stats):
    st = w.db.storage
    files = c13.blob_files(blob_dir)
    live = set()
    it = st.iterator()
    for t in it:
        for r in t:
            if r.data is None or (r.oid, t.tid) not in w.F:
                continue
            live.add((r.oid, t.tid))
            p = files.get((r.oid, t.tid))
            if p is None:
                w.flag('blob-record-without-file',
                       'oid %s tid %s' % (r.oid.hex(), t.tid.hex()))
                continue
            with open(p, 'rb') as f:
                got = f.read()
            if got != w.F[(r.oid, t.tid)]:
                w.flag('blob-content',
                       'oid %s tid %s holds %r' % (r.oid.hex(), t.tid.hex(),
                                                   got[:30]))
    if hasattr(it, 'close'):
        it.close()
    stats['blob_revisions_checked'] = len(live)
    for (oid, tid), p in sorted(files.items()):
        if (oid, tid) not in w.F:
            w.flag('blob-file-of-no-finished-transaction',
                   'oid %s tid %s' % (oid.hex(), tid.hex()))
    left = c13.tmp_leftovers(blob_dir)
    if left:
        w.flag('blob-temp-leftover', '%d entries: %s'
               % (len(left), os.path.basename(left[0])))
