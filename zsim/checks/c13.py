"""C13 -- blob data commits, aborts, undoes and packs together with its
object record (DESIGN §6 C13)."""

import hashlib
import os
import random
import shutil
import tempfile

import transaction
from persistent.TimeStamp import TimeStamp
from ZODB.blob import Blob
from ZODB.POSException import ConflictError
from ZODB.POSException import StorageError
from ZODB.POSException import UndoError
from ZODB.utils import u64

from .. import ctx
from .. import dbh
from .. import objs
from .. import simfs
from ..connshadow import Boom
from ..connshadow import FailingDM
from ..model import UNCREATE
from ..model import Log
from ..model import undo_id

ID = 'C13'
LEVEL = 'exploration'
RULE = ('kinds: FileStorage with blob_dir; BlobStorage proxy over '
        'MappingStorage and over FileStorage (undo, pack); a blob-enabled '
        'FileStorage closed, reopened read-only and wrapped in a DemoStorage '
        'in mid-program (base must stay byte-identical).  '
        'one run = one seeded program of two connections on a blob-enabled '
        'FileStorage (Data.fs on the simulated disk, blob directory on a '
        'scratch tmpfs reached through the fault-injecting os/open proxy) '
        'or on BlobStorage over MappingStorage: create blob, rewrite (w), '
        'append (a), modify in place (r+), consumeFile, another object in '
        'the same transaction, savepoint/rollback, commit, abort, commits '
        'failing at a chosen phase (conflict on another object after the '
        'blob was stored, a participant failing at vote, rename failing so '
        'that the copy fallback runs, ENOSPC in that copy), undo / redo, '
        'pack (gc on/off, keep_old on/off, pack time before/after '
        'revisions); after every step the set of *.blob files must equal '
        'the committed blob revisions of the record storage, every file '
        'must hold the bytes written and never change, readers in both '
        'connections must see the bytes of their snapshot, nothing of an '
        'ended transaction may remain in the blob temp directory; '
        'non-trivial = >= 2 committed blob revisions or >= 1 failed/aborted '
        'blob transaction; distinct = op trace')
RULE += ('  '
         'Later additions: a record-transforming wrapper (HexStorage) '
         'around the blob file storage; blobs that become garbage '
         '(unlink) and are packed away; an undo of a blob change that '
         'is not the current one must be refused (decided from the '
         'blob bytes). ')
BUDGET = {'quick': {'runs': 1600, 'wall': 300, 'chunk': 10},
          'thorough': {'runs': 50000, 'wall': 1800, 'chunk': 20}}
ASSUMPTIONS = [
    'blob directories live on a real tmpfs (BlobFile is an io.FileIO); '
    'faults are injected at ZODB\'s own os.rename/open calls; no crash '
    'images of the blob directory',
    'running as root chmod protects nothing: "never modified in place" is '
    'decided by content hashes per (oid, tid) file',
    'a revision that a pack left in the data file only as the target of a '
    'later back pointer (not loadable any more) need not keep its file; '
    'the BlobStorage proxy\'s file for the un-creation written by its undo '
    'of a creation is accepted (by design, property silent)',
]
SHRINK = ['ops']
_scratch_n = [0]


def gen(seed, tier):
    r = random.Random(seed)
    kind = r.choice(('file', 'file', 'file', 'file', 'mapblob', 'demoblob',
                     'proxy'))
    ops = []
    for _ in range(r.randint(3, 20)):
        x = r.random()
        if x < 0.16:
            ops.append(['create', r.randrange(3)])
        elif x < 0.40:
            ops.append(['write', r.randrange(3), r.choice(
                ('w', 'w', 'a', 'a', 'r+', 'r+', 'consume', 'consume',
                 'consume-fail'))])
        elif x < 0.43:
            ops.append(['other'])
        elif x < 0.445:
            # the observer keeps a reader open across its boundaries
            ops.append(['holdB', r.randrange(3)])
        elif x < 0.46:
            # abort while a writer is still open
            ops.append(['openabort', r.randrange(3)])
        elif x < 0.51:
            ops.append(['sp'])
        elif x < 0.52:
            ops.append(['evict'])
        elif x < 0.57:
            ops.append(['rb', r.randrange(3)])
        elif x < 0.70:
            ops.append(['commit'])
        elif x < 0.72:
            # a commit during which the storage gets a tpc_abort for a
            # transaction that is not the one in flight (must be ignored)
            ops.append(['commit', 'foreign'])
        elif x < 0.78:
            ops.append(['abort'])
        elif x < 0.87:
            ops.append(['fail', r.choice(('conflict', 'participant',
                                          'rename', 'rename+enospc',
                                          'foreignfinish')),
                        r.randrange(4)])
        elif x < 0.92:
            ops.append(['undo', -1 - r.randrange(3),
                        r.choice((1, 1, 1, 2, 3))])
            if r.random() < 0.3:
                # an undo whose transaction is aborted after the storage
                # did the undo (another participant votes no)
                ops[-1].append('fail')
        elif x < 0.96:
            ops.append(['pack', r.choice(('before_last', 'after_all',
                                          'middle'))])
        else:
            ops.append(['readB'])
    if r.random() < 0.25:
        # blob revisions written by undo (back-pointer records with their
        # own blob file), superseded again, then packed
        k = r.randrange(3)
        block = [['write', k, 'w'], ['commit'], ['write', k, 'w'],
                 ['commit'], ['undo', -1]]
        if r.random() < 0.5:
            block += [['undo', -1]]
        block += [['write', k, r.choice(('w', 'a'))], ['commit'],
                  ['pack', r.choice(('after_all', 'before_last'))]]
        at = r.randrange(len(ops) + 1)
        ops[at:at] = block
    if r.random() < 0.15:
        # several revisions of one blob undone in ONE undo transaction
        # (DB.undoMultiple): it stores the blob more than once, the last
        # store is the revision's content
        k = r.randrange(3)
        m = r.choice((2, 2, 3))
        block = []
        for _ in range(m + 1):
            block += [['write', k, r.choice(('w', 'w', 'a'))], ['commit']]
        block += [['undo', -1, m]]
        if r.random() < 0.5:
            block += [['undo', -1, 1]]
        if r.random() < 0.3:
            block += [['pack', 'after_all']]
        at = r.randrange(len(ops) + 1)
        ops[at:at] = block
    if r.random() < 0.2:
        # a blob becomes garbage (with one or with several revisions) and
        # is packed away
        k = r.randrange(3)
        block = [['create', k], ['commit']]
        if r.random() < 0.5:
            block += [['write', k, 'w'], ['commit']]
        block += [['unlink', k]]
        if r.random() < 0.3:
            block += [['other'], ['commit']]
        block += [['pack', r.choice(('after_all', 'after_all',
                                     'before_last'))]]
        at = r.randrange(len(ops) + 1)
        ops[at:at] = block
    if r.random() < 0.12:
        # bulk-load pattern: write, savepoint, cache pressure, commit
        k = r.randrange(3)
        block = [['write', k, r.choice(('w', 'a'))], ['sp'], ['evict'],
                 ['commit']]
        at = r.randrange(len(ops) + 1)
        ops[at:at] = block
    ops += [['commit'], ['readB']]
    if kind == 'demoblob':
        # the leading part of the program runs on the blob-enabled
        # FileStorage alone; it is then closed, reopened read-only and
        # wrapped in a DemoStorage (blobs of the changes in a temporary
        # directory), through which the rest runs
        ops.insert(r.randrange(len(ops) // 2 + 1), ['wrap'])
    return {'kind': kind, 'ops': ops, 'hex': kind == 'file' and
            r.random() < 0.2,
            'st_opts': {'pack_gc': r.random() < 0.5,
                        'pack_keep_old': r.random() < 0.5},
            'bufsize': r.choice((64, 8192)), 'tick': 0.37, 'tier': tier}


def blob_files(blob_dir):
    """{(oid, tid): path} of every committed blob file (parsed from the
    path, independent of ZODB's helpers)."""
    out = {}
    for dp, dn, fn in os.walk(blob_dir):
        rel = os.path.relpath(dp, blob_dir)
        if rel.split(os.sep)[0] == 'tmp':
            continue
        for f in fn:
            if not f.endswith('.blob'):
                continue
            segs = [s for s in rel.split(os.sep) if s.startswith('0x')]
            try:
                oid = bytes(int(s, 16) for s in segs)
                tid = bytes.fromhex(f[2:-5])
            except ValueError:
                continue
            out[(oid, tid)] = os.path.join(dp, f)
    return out


def tmp_leftovers(blob_dir):
    tmp = os.path.join(blob_dir, 'tmp')
    out = []
    if os.path.isdir(tmp):
        for dp, dn, fn in os.walk(tmp):
            out.extend(os.path.join(dp, f) for f in fn)
            out.extend(os.path.join(dp, d) for d in dn)
    return sorted(out)


def is_blob_rec(rec):
    try:
        meta, _ = objs.decode_record(rec.data)
    except Exception:       # noqa: B902
        return False
    return meta == ('class', 'ZODB.blob', 'Blob')


class M:

    def __init__(self, case):
        self.case = case
        self.sim = ctx.activate(ctx.Sim(case['seed'],
                                        bufsize=case['bufsize'],
                                        clock={'tick': case['tick']}))
        _scratch_n[0] += 1
        self.scratch = '/dev/shm/zsim-%d/%d' % (os.getpid(), _scratch_n[0])
        shutil.rmtree(self.scratch, ignore_errors=True)
        os.makedirs(self.scratch + '/systmp')
        self.blob_dir = self.scratch + '/blobs'
        self.old_tempdir = tempfile.tempdir
        tempfile.tempdir = self.scratch + '/systmp'
        self.viol = []
        self.trace = []
        self.kind = case['kind']
        self.base_snapshot = None
        if self.kind == 'demoblob':
            # phase 1 (until the 'wrap' op): the future base, a file
            # storage with blobs
            self.kind = 'file'
        if self.kind == 'file':
            from ZODB.FileStorage import FileStorage
            self.st = FileStorage(dbh.PATH, blob_dir=self.blob_dir,
                                  **case['st_opts'])
            if case.get('hex'):
                # a record-transforming wrapper (as zc.zlibstorage or an
                # encrypting storage): what the file storage sees of a
                # record is not the pickle
                from ZODB.tests.hexstorage import HexStorage
                self.st = HexStorage(self.st)
        elif self.kind == 'proxy':
            # the BlobStorage proxy over a storage with undo
            from ZODB.blob import BlobStorage
            from ZODB.FileStorage import FileStorage
            self.st = BlobStorage(self.blob_dir, FileStorage(
                dbh.PATH, **case['st_opts']))
        else:
            from ZODB.blob import BlobStorage
            from ZODB.MappingStorage import MappingStorage
            self.st = BlobStorage(self.blob_dir, MappingStorage())
        self.db = dbh.make_db(self.sim, storage=self.st)
        self.A = dbh.Client(self.db, 'A')
        self.B = dbh.Client(self.db, 'B')
        self.log = Log()
        self.counter = 0
        self.blobs = {}         # k -> dict(obj, pending, committed, oid)
        self.F = {}             # (oid, tid) -> expected bytes
        self.hashes = {}        # path -> sha of a committed file
        self.commit_log = []
        self.sps = []
        self.dirty_blob_txn = False
        self.nrev = 0
        self.nfail = 0
        self.A.open()
        self.B.open()
        self.A.root()['cell'] = objs.Cell(0)
        self.A.commit()
        self.adopt()

    def flag(self, o, x):
        if len(self.viol) < 20:
            if getattr(self, 'tainted', False) and \
                    not o.startswith('rollback-over-resaved-blob/'):
                o = 'rollback-over-resaved-blob/' + o
            if getattr(self, 'proxy_tainted', False) and \
                    not o.startswith('proxy-undo-of-uncreation/'):
                o = 'proxy-undo-of-uncreation/' + o
            self.viol.append((o, x))

    def data(self):
        self.counter += 1
        n = self.counter
        return (b'blob-%d-' % n) * (1 + n % 7)

    # -- bookkeeping --------------------------------------------------------

    def adopt(self):
        n = dbh.adopt(self.log, self.st.changes
                      if self.kind == 'demoblob' else self.st)
        oid2k = {}
        for k, b in self.blobs.items():
            oid = b['obj']._p_oid if b.get('obj') is not None \
                else b.get('oid')
            if oid is not None:
                oid2k[oid] = k
        for t in self.log.txns[len(self.log.txns) - n:]:
            self.commit_log.append(t.tid)
            for r in t.recs:
                if r.kind == UNCREATE or not is_blob_rec(r):
                    continue
                if r.src_tid is not None and (r.oid, r.src_tid) in self.F:
                    self.F[(r.oid, t.tid)] = self.F[(r.oid, r.src_tid)]
                elif r.oid in oid2k:
                    self.F[(r.oid, t.tid)] = \
                        self.blobs[oid2k[r.oid]]['pending']
                self.nrev += 1
        return n

    def blob_dirs(self):
        out = [self.blob_dir]
        if self.kind == 'demoblob':
            fsh = getattr(self.st.changes, 'fshelper', None)
            if fsh is not None:
                out.append(fsh.base_dir.rstrip('/'))
        return out

    def base_state(self):
        files = {}
        for dp, dn, fn in os.walk(self.blob_dir):
            if os.path.basename(dp) == 'tmp' or '/tmp/' in dp + '/':
                continue
            for f in fn:
                path = os.path.join(dp, f)
                with open(path, 'rb') as fh:
                    files[path] = hashlib.sha1(fh.read()).hexdigest()
        return (bytes(self.sim.fs.read_bytes(dbh.PATH)), files)

    def check_base(self, where):
        if self.base_snapshot is None:
            return
        now = self.base_state()
        if now[0] != self.base_snapshot[0]:
            self.flag('demo-base-modified', '%s: the base data file '
                      'changed' % where)
        if now[1] != self.base_snapshot[1]:
            ch = sorted(set(now[1].items()) ^ set(
                self.base_snapshot[1].items()))
            self.flag('demo-base-modified', '%s: the base blob directory '
                      'changed: %r' % (where, [os.path.basename(x[0])
                                               for x in ch[:3]]))

    def op_wrap(self):
        """Close the file storage, reopen it read-only and wrap it."""
        from ZODB.DemoStorage import DemoStorage
        from ZODB.FileStorage import FileStorage
        if self.kind != 'file' or self.case['kind'] != 'demoblob':
            return
        self.A.abort()
        self.end_fail()
        self.B.abort()
        self.A.close()
        self.B.close()
        self.db.close()
        import gc
        gc.collect()
        base = FileStorage(dbh.PATH, blob_dir=self.blob_dir, read_only=True)
        self.st = DemoStorage(base=base)
        self.kind = 'demoblob'
        self.db = dbh.make_db(self.sim, storage=self.st)
        self.A = dbh.Client(self.db, 'A')
        self.B = dbh.Client(self.db, 'B')
        self.A.open()
        self.B.open()
        self.sps = []
        self.base_snapshot = self.base_state()
        self.reshadow()
        self.trace.append('wrap')
        self.after_step('after wrapping', True)

    def reshadow(self):
        """Rebuild the shadow from the committed root."""
        A = self.A
        A.begin()
        root = A.root()
        for kk in list(self.blobs):
            if 'b%d' % kk not in root:
                del self.blobs[kk]
        for name in sorted(root.keys()):
            if not name.startswith('b'):
                continue
            kk = int(name[1:])
            obj = root[name]
            cur = self.log.current(obj._p_oid)
            if cur is None or cur[1].kind == UNCREATE:
                self.blobs.pop(kk, None)
                continue
            c = self.F.get((obj._p_oid, cur[0]))
            self.blobs[kk] = {'obj': obj, 'pending': c, 'committed': c}

    def rebuild_log(self):
        """After a pack: what the record storage holds now."""
        self.log = Log()
        dbh.adopt(self.log, self.st)

    def check_files(self, where):
        want = {}
        for t in self.log.txns:
            for r in t.recs:
                if r.kind != UNCREATE and is_blob_rec(r) and not r.shadow:
                    want[(r.oid, t.tid)] = self.F.get((r.oid, t.tid))
        have = {}
        for bd in self.blob_dirs():
            have.update(blob_files(bd))
        extra = sorted(set(have) - set(want))
        missing = sorted(set(want) - set(have))
        if missing and self.kind in ('file', 'proxy'):
            # a revision that is still in the data file only as the target
            # of a later back pointer cannot be loaded by anyone any more
            # (C07's "shadow" records: pack cut its prev chain): whether its
            # file is still there is not promised -- the BlobStorage proxy
            # decides by loadSerial, FileStorage drops it when the record
            # shares its transaction (and so its file) with a dropped one
            from ZODB.POSException import POSKeyError
            keep = []
            for oid, tid in missing:
                try:
                    self.st.loadSerial(oid, tid)
                    keep.append((oid, tid))
                except POSKeyError:
                    pass
            missing = keep
        if extra and self.kind == 'proxy':
            # the proxy's undo of a creation deliberately writes a file
            # for the un-creation ("in case a user wishes to undo this
            # undo"): the property is silent on it
            unc = {(r.oid, t.tid) for t in self.log.txns for r in t.recs
                   if r.kind == UNCREATE}
            extra = [x for x in extra if x not in unc]
        if extra:
            self.flag('blob-file-without-record', '%s: blob files without a '
                      'committed blob record: %r' % (where, [
                          (u64(o), u64(t)) for o, t in extra[:3]]))
        if missing:
            self.flag('blob-record-without-file', '%s: committed blob '
                      'records without a file: %r' % (where, [
                          (u64(o), u64(t)) for o, t in missing[:3]]))
        for key, path in have.items():
            with open(path, 'rb') as f:
                b = f.read()
            h = hashlib.sha1(b).hexdigest()
            old = self.hashes.get(path)
            if old is not None and old != h:
                self.flag('committed-blob-modified', '%s: committed blob '
                          'file of (%d, %d) changed in place'
                          % (where, u64(key[0]), u64(key[1])))
            self.hashes[path] = h
            exp = want.get(key)
            if exp is not None and b != exp:
                self.flag('blob-file-content', '%s: blob file of (%d, %d) '
                          'holds %r..., expected %r...'
                          % (where, u64(key[0]), u64(key[1]), b[:24],
                             exp[:24]))
        for p in list(self.hashes):
            if p not in have.values():
                del self.hashes[p]

    def check_tmp(self, where):
        # working files belong to live Blob objects: collect the dead ones
        # (reference cycles) before looking
        import gc
        gc.collect()
        left = []
        for bd in self.blob_dirs():
            left.extend(tmp_leftovers(bd))
        # uncommitted working files of live Blob objects are legitimate
        # only inside a transaction
        if left:
            self.flag('blob-temp-leftover', '%s: the blob temp directory '
                      'still holds %r' % (where, [os.path.basename(x)
                                                  for x in left[:3]]))

    def read_blob(self, b):
        with b.open('r') as f:
            got = f.read()
        # the committed file itself, where the blob has no uncommitted data
        if b._p_blob_uncommitted is None and b._p_oid is not None \
                and b._p_serial != b'\0' * 8 and b._p_blob_committed \
                and not b._p_blob_committed.endswith('.spb') \
                and not b._p_changed:
            try:
                with b.open('c') as f:
                    c1 = f.read()
                with open(b.committed(), 'rb') as f:
                    c2 = f.read()
            except Exception as e:      # noqa: B902
                self.flag('blob-unreadable', "open('c') / committed() "
                          'raised %s: %s' % (type(e).__name__, str(e)[:60]))
            else:
                if c1 != got or c2 != got:
                    self.flag('blob-read', "open('c') / committed() give "
                              '%r... / %r..., open() gives %r...'
                              % (c1[:20], c2[:20], got[:20]))
        return got

    def check_reads(self, cl, where, committed_only):
        root = cl.root()
        for k, info in self.blobs.items():
            name = 'b%d' % k
            want = info['committed'] if committed_only else info['pending']
            present = name in root
            if want is None:
                if present and committed_only:
                    self.flag('uncommitted-blob-visible', '%s: %s sees blob '
                              '%d, which is not committed'
                              % (where, cl.name, k))
                continue
            if not present:
                self.flag('blob-missing', '%s: %s does not see blob %d'
                          % (where, cl.name, k))
                continue
            try:
                got = self.read_blob(root[name])
            except Exception as e:      # noqa: B902
                self.flag('blob-unreadable', '%s: %s reading blob %d raised '
                          '%s: %s' % (where, cl.name, k, type(e).__name__,
                                      str(e)[:60]))
                continue
            if got != want:
                self.flag('blob-read', '%s: %s reads %r... from blob %d, '
                          'expected %r...' % (where, cl.name, got[:24], k,
                                              want[:24]))

    # -- ops ----------------------------------------------------------------

    def op_create(self, k):
        if k in self.blobs and self.blobs[k]['pending'] is not None:
            return self.op_write(k, 'w')
        d = self.data()
        b = Blob()
        with b.open('w') as f:
            f.write(d)
        self.A.root()['b%d' % k] = b
        self.blobs[k] = {'obj': b, 'pending': d, 'committed': None}
        self.dirty_blob_txn = True
        self.trace.append('create')

    def obj(self, k):
        """The Blob object of slot k (fetched again from the root after
        the harness let go of it)."""
        info = self.blobs[k]
        if info.get('obj') is None:
            info['obj'] = self.A.root()['b%d' % k]
        return info['obj']

    def op_evict(self):
        """Cache pressure: nothing but the connection's cache refers to
        the blob objects any more, and the cache is minimised (a blob
        saved by a savepoint then leaves the cache with its container)."""
        import gc
        for info in self.blobs.values():
            if info.get('obj') is not None and \
                    info['obj']._p_oid is not None:
                info['oid'] = info['obj']._p_oid
                info['obj'] = None
        self.A.conn.cacheMinimize()
        gc.collect()
        self.trace.append('evict')

    def op_write(self, k, mode):
        info = self.blobs.get(k)
        if info is None or info['pending'] is None:
            return self.op_create(k)
        b = self.obj(k)
        d = self.data()
        old = info['pending']
        if mode == 'w':
            with b.open('w') as f:
                f.write(d)
            new = d
        elif mode == 'a':
            with b.open('a') as f:
                f.write(d)
            new = old + d
        elif mode == 'r+':
            with b.open('r+') as f:
                pos = len(old) // 2
                f.seek(pos)
                f.write(d[:5])
            new = old[:pos] + d[:5] + old[pos + 5:]
        elif mode == 'consume-fail':
            # consumeFile whose rename and copy fall-back both fail: the
            # blob keeps what it had
            path = self.scratch + '/systmp/consume-%d' % self.counter
            with open(path, 'wb') as f:
                f.write(d)
            fs = self.sim.fs
            plan = fs.arm(simfs.FaultPlan([
                {'at': self.counter % 2, 'kind': 'eio',
                 'ops': ('real.rename',)},
                {'at': 0, 'kind': 'enospc', 'span': None,
                 'ops': ('real.open',)}]))
            try:
                b.consumeFile(path)
                new = d
            except OSError:
                new = old
                self.trace.append('consume-failed')
            finally:
                fs.disarm()
            if plan.fired:
                self.sim.faults_fired['blob:consume'] += 1
            if os.path.exists(path):
                os.remove(path)
            try:
                got = self.read_blob(b)
            except Exception as e:      # noqa: B902
                got = '%s: %s' % (type(e).__name__, e)
            if got != new:
                self.flag('blob-read', 'after a %s consumeFile the blob '
                          'reads %r..., expected %r...'
                          % ('failed' if new is old else 'successful',
                             got[:24], new[:24]))
        else:
            path = self.scratch + '/systmp/consume-%d' % self.counter
            with open(path, 'wb') as f:
                f.write(d)
            b.consumeFile(path)
            new = d
        info['pending'] = new
        self.dirty_blob_txn = True
        self.trace.append('write-' + mode)

    def op_other(self):
        c = self.A.root()['cell']
        c.token = self.counter
        self.trace.append('other')

    def end_ok(self):
        n = self.adopt()
        if getattr(self, 'tainted', False):
            # the wrong bytes were committed: the shadow cannot follow
            self.tainted = 'committed'
        for info in self.blobs.values():
            info['committed'] = info['pending']
        self.sps = []
        self.dirty_blob_txn = False
        return n

    def end_fail(self):
        # (the taint of the known savepoint-blob finding outlives the
        # abort: a Blob object that was loaded from the left-over savepoint
        # file is clean, so the abort does not invalidate it, and it goes
        # on pointing at a file the abort removes)
        if self.dirty_blob_txn:
            self.nfail += 1
        for k, info in list(self.blobs.items()):
            info['pending'] = info['committed']
            if info['committed'] is None:
                del self.blobs[k]
        self.sps = []
        self.dirty_blob_txn = False

    def after_step(self, where, txn_ended):
        self.check_files(where)
        self.check_base(where)
        if txn_ended:
            self.check_tmp(where)
            self.A.begin()
            self.check_reads(self.A, where, committed_only=True)

    def op_commit(self, how=None):
        if how == 'foreign':
            from ZODB.Connection import TransactionMetaData
            st = self.st

            class ForeignAbort(FailingDM):
                def tpc_vote(self, txn):
                    st.tpc_abort(TransactionMetaData(b'', b'foreign', {}))
            self.A.tm.get().join(ForeignAbort('never', first=False))
        try:
            self.A.commit()
        except Exception as e:      # noqa: B902
            self.flag('commit-raises', 'commit raised %s: %s'
                      % (type(e).__name__, str(e)[:80]))
            self.A.abort()
            self.end_fail()
            self.after_step('after commit that raised', True)
            return
        self.end_ok()
        self.trace.append('commit')
        self.after_step('after commit', True)

    def op_abort(self):
        self.A.abort()
        self.end_fail()
        if self.adopt():
            self.flag('abort-stored', 'abort left a transaction')
        self.trace.append('abort')
        self.after_step('after abort', True)

    def op_fail(self, how, arg):
        fs = self.sim.fs
        A = self.A
        plan = None
        if how == 'conflict':
            # the other connection commits the plain object first; A
            # stores its blobs before it gets to that object or after
            B = self.B
            B.begin()
            B.root()['cell'].token = -self.counter - 1
            B.commit()
            self.adopt()
            A.root()['cell'].token = self.counter + 1000
        elif how == 'participant':
            A.tm.get().join(FailingDM('tpc_vote', first=False))
        elif how == 'foreignfinish':
            # a tpc_finish for a transaction that is not the one in flight
            # (refused), then the vote fails: nothing of the transaction
            # may stay
            from ZODB.Connection import TransactionMetaData
            from ZODB.POSException import StorageTransactionError
            st = self.st

            class ForeignFinish(FailingDM):
                def tpc_vote(self, txn):
                    try:
                        st.tpc_finish(TransactionMetaData(b'', b'f', {}))
                    except StorageTransactionError:
                        pass
                    self._maybe('tpc_vote')
            A.tm.get().join(ForeignFinish('tpc_vote', first=False))
        else:
            e = [{'at': arg, 'kind': 'eio', 'ops': ('real.rename',)}]
            if how == 'rename+enospc':
                e.append({'at': 0, 'kind': 'enospc', 'span': None,
                          'ops': ('real.open',), 'suffix': '.blob'})
            plan = fs.arm(simfs.FaultPlan(e))
        raised = None
        try:
            A.commit()
        except (ConflictError, Boom, StorageError, OSError) as e:
            raised = e
        except Exception as e:      # noqa: B902
            raised = e
            self.flag('commit-raises', 'failing commit (%s) raised '
                      'unexpected %s: %s' % (how, type(e).__name__,
                                             str(e)[:80]))
        fs.disarm()
        if plan is not None and plan.fired:
            self.sim.faults_fired['blob:' + how] += 1
        if raised is None:
            self.end_ok()
            self.trace.append('commit(%s)' % how)
            self.after_step('after commit with %s' % how, True)
            return
        A.abort()
        self.end_fail()
        if self.adopt():
            self.flag('failed-commit-stored', 'a failed commit (%s) left a '
                      'transaction' % how)
        self.trace.append('fail:' + how)
        self.after_step('after failed commit (%s)' % how, True)

    def op_undo(self, k, m=1, fail=None):
        if self.kind not in ('file', 'proxy') or len(self.commit_log) < 2:
            return
        A = self.A
        A.abort()
        self.end_fail()
        cand = self.commit_log[2:]      # not the root / the plain object
        if not cand:
            return
        i = k % len(cand)
        tids = [cand[j] for j in range(i, max(i - m, -1), -1)]
        if any(self.log.txn(tid) is None for tid in tids):
            return
        if self.kind == 'proxy' and any(
                r.kind == UNCREATE for tid in tids
                for r in self.log.txn(tid).recs):
            # known finding: the proxy finds the blobs of an undo by the
            # *files* named after the undone transaction and their
            # previous revision by loadBefore -- undoing a transaction
            # that un-created a blob (i.e. redoing a creation) raises
            # POSKeyError or, once a pack removed the un-creation's file,
            # writes a blob record without a file
            self.proxy_tainted = True
        # an undo of one transaction whose blob was written again later
        # with other bytes must be refused (the records of a blob are all
        # alike: only the files tell the revisions apart)
        lost = None
        if len(tids) == 1:
            for r in self.log.txn(tids[0]).recs:
                cur = self.log.current(r.oid)
                if r.kind == UNCREATE or not is_blob_rec(r) or cur is None \
                        or cur[0] == tids[0] or cur[1].kind == UNCREATE:
                    continue
                mine = self.F.get((r.oid, tids[0]))
                now = self.F.get((r.oid, cur[0]))
                if mine is not None and now is not None and mine != now:
                    lost = (r.oid, cur[0])
        A.begin()
        try:
            if len(tids) == 1:
                self.db.undo(undo_id(tids[0]), A.tm.get())
            else:
                self.db.undoMultiple([undo_id(tid) for tid in tids],
                                     A.tm.get())
            if fail:
                A.tm.get().join(FailingDM('tpc_vote', first=False))
            A.commit()
        except Boom:
            A.abort()
            self.nfail += 1
            if self.adopt():
                self.flag('failed-commit-stored', 'an aborted undo left a '
                          'transaction')
            self.trace.append('undo-aborted')
            self.after_step('after aborted undo', True)
            return
        except UndoError:
            A.abort()
            self.trace.append('undo-refused')
            self.after_step('after refused undo', True)
            return
        except Exception as e:      # noqa: B902
            self.flag('undo-raises', '%s: %s' % (type(e).__name__,
                                                 str(e)[:80]))
            A.abort()
            return
        if lost is not None:
            self.flag('undo-loses-later-blob-bytes', 'the undo of %r was '
                      'accepted although blob %r was written again, with '
                      'other bytes, in %r: those bytes are no longer '
                      'current' % (tids[0], lost[0], lost[1]))
        self.adopt()
        # rebuild the shadow from the committed root: an undo can remove a
        # blob from the root, and undoing that undo brings it back
        A.begin()
        root = A.root()
        for kk in list(self.blobs):
            if 'b%d' % kk not in root:
                del self.blobs[kk]
        for name in sorted(root.keys()):
            if not name.startswith('b'):
                continue
            kk = int(name[1:])
            obj = root[name]
            cur = self.log.current(obj._p_oid)
            if cur is None or cur[1].kind == UNCREATE:
                self.blobs.pop(kk, None)
                continue
            c = self.F.get((obj._p_oid, cur[0]))
            self.blobs[kk] = {'obj': obj, 'pending': c, 'committed': c}
        self.trace.append('undo')
        self.after_step('after undo', True)

    def op_unlink(self, k):
        """The blob of slot k is taken out of the root (a transaction of
        its own) and forgotten: garbage for the next collecting pack."""
        A = self.A
        A.abort()
        self.end_fail()
        if k not in self.blobs:
            return
        A.begin()
        name = 'b%d' % k
        if name in A.root():
            del A.root()[name]
        A.commit()
        self.adopt()
        del self.blobs[k]
        self.trace.append('unlink')
        self.after_step('after unlink', True)

    def op_pack(self, when):
        if self.kind == 'demoblob':
            return      # (the changes are a MappingStorage: C16's subject)
        A = self.A
        A.abort()
        self.end_fail()
        tids = self.log.tids()
        if when == 'after_all' or len(tids) < 2:
            t = TimeStamp(tids[-1]).timeTime() + 5
        elif when == 'before_last':
            t = TimeStamp(tids[-1]).timeTime() - 0.01
        else:
            t = TimeStamp(tids[len(tids) // 2]).timeTime() + 0.001
        try:
            self.db.pack(t)
        except Exception as e:      # noqa: B902
            self.trace.append('pack-raises:' + type(e).__name__)
            self.after_step('after failed pack', True)
            return
        self.rebuild_log()
        self.trace.append('pack')
        self.after_step('after pack', True)

    def op_sp(self):
        try:
            sp = self.A.tm.savepoint()
        except Exception as e:      # noqa: B902
            self.flag('savepoint-raises', '%s: %s' % (type(e).__name__,
                                                      str(e)[:80]))
            return
        self.sps.append((sp, {k: i['pending']
                              for k, i in self.blobs.items()}))
        self.trace.append('sp')
        self.check_files('after savepoint')
        self.check_reads(self.A, 'after savepoint', committed_only=False)

    def op_rb(self, j):
        if not self.sps:
            return
        j %= len(self.sps)
        sp, snap = self.sps[j]
        try:
            sp.rollback()
        except Exception as e:      # noqa: B902
            self.flag('rollback-raises', '%s: %s' % (type(e).__name__,
                                                     str(e)[:80]))
            return
        # blobs that a *later* savepoint saved again with other bytes: the
        # temporary store keeps one file per (oid, serial), see
        # known_findings.json
        later = self.sps[j + 1:]
        resaved = {k for k, v in snap.items()
                   if any(k in s2 and s2[k] != v for _, s2 in later)}
        del self.sps[j + 1:]
        nv = len(self.viol)
        for k in list(self.blobs):
            if k in snap:
                self.blobs[k]['pending'] = snap[k]
            else:
                # created after the savepoint: un-added; the root no
                # longer names it
                del self.blobs[k]
        self.trace.append('rb')
        self.check_files('after rollback')
        self.check_reads(self.A, 'after rollback', committed_only=False)
        if resaved:
            self.tainted = True
        if getattr(self, 'tainted', False):
            self.viol[nv:] = [('rollback-over-resaved-blob/' + o, x)
                              for o, x in self.viol[nv:]]

    def op_readB(self):
        self.B.begin()
        self.check_reads(self.B, 'observer', committed_only=True)
        self.trace.append('readB')

    def op_holdB(self, k):
        """The observer opens a committed blob for reading and keeps the
        file open while others commit and it crosses boundaries."""
        info = self.blobs.get(k)
        if info is None or info['committed'] is None:
            return
        self.B.begin()
        root = self.B.root()
        if 'b%d' % k not in root:
            return
        held = getattr(self, 'held', None)
        if held is None:
            held = self.held = []
        try:
            held.append(root['b%d' % k].open('r'))
        except Exception as e:      # noqa: B902
            self.flag('blob-unreadable', 'observer open raised %s'
                      % type(e).__name__)
        self.trace.append('holdB')

    def op_openabort(self, k):
        """Abort while a file opened for writing is still open."""
        info = self.blobs.get(k)
        if info is None or info['pending'] is None:
            return
        b = self.obj(k)
        try:
            f = b.open('w')
        except Exception:       # noqa: B902
            return
        f.write(b'never-committed-' + self.data())
        self.dirty_blob_txn = True
        self.A.abort()
        try:
            f.close()
        except Exception:       # noqa: B902
            pass
        self.end_fail()
        # (the working file of a live, un-added Blob object is legitimate:
        # let go of it before looking)
        f = b = info = None
        if self.adopt():
            self.flag('abort-stored', 'abort left a transaction')
        self.trace.append('openabort')
        self.after_step('after abort with an open writer', True)

    def copy_check(self):
        """C17's blob clause: copying all transactions into another
        blob-capable storage reproduces every blob revision's file."""
        if self.kind != 'file':
            return
        from ZODB.FileStorage import FileStorage
        self.A.abort()
        self.B.abort()
        dst_dir = self.scratch + '/blobs-copy'
        dst = FileStorage('/sim/Copy.fs', create=True, blob_dir=dst_dir)
        try:
            try:
                dst.copyTransactionsFrom(self.st)
            except Exception as e:      # noqa: B902
                self.flag('blob-copy-raises', 'copyTransactionsFrom raised '
                          '%s: %s' % (type(e).__name__, str(e)[:80]))
                return
            src_files = blob_files(self.blob_dir)
            dst_files = blob_files(dst_dir)
            if sorted(src_files) != sorted(dst_files):
                miss = sorted(set(src_files) - set(dst_files))
                extra = sorted(set(dst_files) - set(src_files))
                self.flag('blob-copy-files', 'the copy lacks blob files of '
                          '%r and has extra ones for %r'
                          % ([(u64(o), u64(t)) for o, t in miss[:3]],
                             [(u64(o), u64(t)) for o, t in extra[:3]]))
            for key, path in src_files.items():
                p2 = dst_files.get(key)
                if p2 is None:
                    continue
                with open(path, 'rb') as f1, open(p2, 'rb') as f2:
                    if f1.read() != f2.read():
                        self.flag('blob-copy-content', 'blob file of (%d, '
                                  '%d) differs in the copy'
                                  % (u64(key[0]), u64(key[1])))
            a = [(t.tid, [(r.oid, r.data) for r in t])
                 for t in self.st.iterator()]
            b = [(t.tid, [(r.oid, r.data) for r in t])
                 for t in dst.iterator()]
            if a != b:
                self.flag('blob-copy-records', 'records of the copy differ '
                          'from the source')
            self.trace.append('copy')
        finally:
            try:
                dst.close()
            except Exception:       # noqa: B902
                pass

    def finish(self):
        for f in getattr(self, 'held', ()):
            try:
                f.close()
            except Exception:       # noqa: B902
                pass
        try:
            self.A.abort()
            self.B.abort()
            self.db.close()
        except Exception:       # noqa: B902
            pass
        tempfile.tempdir = self.old_tempdir
        shutil.rmtree(self.scratch, ignore_errors=True)
        try:
            os.rmdir(os.path.dirname(self.scratch))
        except OSError:
            pass


def run(case):
    import ZODB.blob
    del ZODB.blob._blob_close_refs[:]
    m = None
    try:
        m = M(case)
        for op in case['ops']:
            k = op[0]
            if k == 'create':
                m.op_create(op[1])
            elif k == 'write':
                m.op_write(op[1], op[2])
            elif k == 'other':
                m.op_other()
            elif k == 'commit':
                m.op_commit(*op[1:])
            elif k == 'abort':
                m.op_abort()
            elif k == 'fail':
                m.op_fail(op[1], op[2])
            elif k == 'undo':
                m.op_undo(*op[1:])
            elif k == 'pack':
                m.op_pack(op[1])
            elif k == 'unlink':
                m.op_unlink(op[1])
            elif k == 'sp':
                m.op_sp()
            elif k == 'rb':
                m.op_rb(op[1])
            elif k == 'readB':
                m.op_readB()
            elif k == 'wrap':
                m.op_wrap()
            elif k == 'evict':
                m.op_evict()
            elif k == 'holdB':
                m.op_holdB(op[1])
            elif k == 'openabort':
                m.op_openabort(op[1])
            if len(m.viol) >= 8:
                break
        if not m.viol and case.get('copy', True):
            m.copy_check()
    except Exception as e:      # noqa: B902
        import traceback
        if m is not None:
            m.flag('program-raises', '%s: %s | %s' % (
                type(e).__name__, str(e)[:80],
                ' / '.join(x.strip()[:70] for x in
                           traceback.format_exc().strip()
                           .splitlines()[-5:-1])))
        else:
            raise
    finally:
        if m is not None:
            m.finish()
    stats = {'sim_time_s': m.sim.clock.elapsed(), 'kind:' + case['kind']: 1,
             'blob_revisions': m.nrev, 'failed_blob_txns': m.nfail}
    for t in m.trace:
        stats['op:' + t.split(':')[0]] = stats.get('op:' + t.split(':')[0],
                                                   0) + 1
    for k, n in m.sim.faults_fired.items():
        stats['fault:' + str(k)] = n
    return {
        'violations': [{'oracle': o, 'detail': x} for o, x in m.viol[:20]],
        'stats': stats,
        'keys': ['%s|%s' % (case['kind'], ','.join(m.trace))]
        if (m.nrev >= 2 or m.nfail) else [],
        'evals': 1,
        'sample': {'kind': case['kind'], 'st_opts': case['st_opts'],
                   'ops': case['ops'], 'trace': m.trace},
        'digest': m.sim.digest(m.trace, m.viol),
    }


LEVEL_TEXT = ('seeded search over two-connection blob programs on real '
              'blob/FileStorage/Connection code: the record storage on the '
              'simulated disk, the blob directory on a scratch tmpfs '
              'behind the fault-injecting proxy (rename failures force the '
              'copy fallback, ENOSPC inside the copy); after every step '
              'the blob directory is compared file by file with the '
              'committed blob records, contents with the bytes written, '
              'and both connections\' reads with their snapshots.')
LEVEL_NOTE = ('no crash images of the blob directory; faults only at '
              'ZODB\'s own os/open calls; programs <= 22 ops, <= 3 blobs; '
              'trusted: path parser, shadow contents')
TECHNIQUE = ('deterministic simulation: seeded two-connection programs with '
             'injected failures (participants, conflicts, rename/copy '
             'faults), directory-vs-record-storage oracle')
