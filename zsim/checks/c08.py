"""C08 -- packing is safe under concurrent commits and under a crash at any
point (DESIGN §6 C08).  Three arms: schedules, crash points of a pack,
failing operations of a pack."""

import os
import random

from persistent.TimeStamp import TimeStamp
from ZODB.POSException import ConflictError
from ZODB.POSException import ReadConflictError
from ZODB.utils import p64
from ZODB.utils import u64

from .. import ctx
from .. import dbh
from .. import fsparse
from .. import gen as G
from .. import mvcc
from .. import objs
from .. import simfs
from ..hist import Driver
from ..hist import Violation
from ..model import Log
from ..sweep import sweep

ID = 'C08'
LEVEL = 'exploration'
RULE = ('three arms, chosen per run.  sched: 2-3 client tasks (committers, '
        'readers, an undoer) and 1-3 packer tasks on a DB over FileStorage '
        'on the simulated disk, interleaved by the seeded scheduler at lock '
        'and file-I/O operations, pack time chosen around the clients\' '
        'commits; oracle: C02 snapshot checks against the complete commit '
        'history, readers newer than the pack time see no error at all and '
        'older ones only ReadConflictError, all acknowledged writes are '
        'present live and after reopen, second packer refused or '
        'serialised, a further commit and pack succeed.  crash: the op log '
        'of a pack (alone or with concurrent commits) is cut at every op '
        'from the start of the pack on; each image must reopen to the '
        'unpacked or the packed database with every acknowledged commit.  '
        'fail: every raw op of a pack fails (transient, persistent, rename '
        'failure); pack must raise, leave the state unchanged, release the '
        'commit lock, allow a further commit and pack.  non-trivial = a '
        'pack overlapped with >= 1 commit (sched) / the cut lies inside '
        'the pack (crash) / a fault fired (fail); distinct = schedule trace '
        'or image hash or (history, fault)')
RULE += ('  '
         'Later additions: a configuration (8 % of the runs) with '
         'line-level pre-emption inside the pool of read handles only; '
         'bystander tasks; the serial oracle. ')
BUDGET = {'quick': {'runs': 1600, 'wall': 300, 'chunk': 10},
          'thorough': {'runs': 90000, 'wall': 1800, 'chunk': 20}}
ASSUMPTIONS = [
    'pre-emption points are lock operations and raw file I/O; 8 % of the '
    'runs add every source line of the read-handle pool, 6 % every source '
    'line of fsIndex; never inside a source line',
    'crash model: prefix of the issued low-level operations (renames and '
    'removals included), torn writes sampled',
]
SHRINK = ['scripts', 'ops']
PATH = '/sim/Data.fs'


def gen_idxrace(r, tier):
    """The index a pack saves, under commits of many records: bulk
    committers keep a commit pending while the pack finishes; line-level
    pre-emption inside the index (fsIndex.update runs record by record);
    crash images after the pack are opened with the index it saved."""
    from .. import seams
    scripts = []
    for _ in range(r.choice((1, 2))):
        scripts.append([{'steps': [['w', k] for k in
                                   r.sample(range(8), r.randint(6, 8))]}
                        for _ in range(r.randint(3, 6))])
    sch = mvcc.sched_config(r)
    sch['strategy'] = r.choice(('random', 'sticky'))
    sch['fine'] = {'p': r.choice((0.3, 0.5)),
                   'prefix': seams.repo_src() + '/ZODB/fsIndex'}
    return {'arm': 'crash', 'kind': 'file', 'ncell': 8, 'scripts': scripts,
            'packers': [{'delay': r.randrange(0, 60),
                         'dt': r.choice((0.0, 5.0))}],
            'st_opts': {'pack_keep_old': r.random() < 0.5},
            'explicit': [False] * len(scripts), 'cache_size': 400,
            'pool_size': 7, 'bufsize': r.choice((512, 8192)),
            'classes': ['Cell'] * 8, 'sched': sch, 'tick': 0.37,
            'tier': tier, 'prefill': r.randint(1, 2), 'idxrace': True}


def gen_poolrace(r, tier):
    """Line-level pre-emption inside the synchronisation code that keeps
    readers away from the pack's file swap (the pool of read handles):
    readers, a writer and repeated packs."""
    from .. import seams
    ncell = r.choice((2, 3))
    scripts = []
    for i in range(r.choice((2, 3))):
        scripts.append(mvcc.gen_script(r, ncell, r.randint(3, 7),
                                       write_p=0.5 if i == 0 else 0.15,
                                       misc_p=0.25))
    sch = mvcc.sched_config(r)
    sch['fine'] = {'p': r.choice((0.2, 0.5)),
                   'prefix': seams.repo_src()
                   + '/ZODB/FileStorage/FileStorage.py',
                   'qual': 'FilePool.'}
    return {'arm': 'sched', 'kind': 'file', 'ncell': ncell,
            'scripts': scripts,
            'packers': [{'delay': r.randrange(0, 80),
                         'dt': r.choice((0.0, 5.0))}
                        for _ in range(r.choice((1, 2, 3)))],
            'st_opts': {'pack_keep_old': r.random() < 0.5},
            'explicit': [False] * len(scripts),
            'cache_size': r.choice((0, 400)),
            'pool_size': 7, 'bufsize': r.choice((512, 8192)),
            'classes': ['Cell'] * ncell, 'sched': sch, 'tick': 0.37,
            'tier': tier, 'prefill': r.randint(1, 3), 'poolrace': True}


def gen(seed, tier):
    r = random.Random(seed)
    x0 = r.random()
    if x0 < 0.06:
        return gen_idxrace(r, tier)
    if x0 < 0.14 or os.environ.get('ZSIM_C08_POOL_ONLY'):
        return gen_poolrace(r, tier)
    if x0 > (0.9 if tier == 'thorough'
            or os.environ.get('ZSIM_C08_BLOBRACE') else 0.96):
        # blobs and threads in one world (one case in ten of the thorough
        # tier, one in twenty-five of the quick tier)
        from . import c08blob
        return c08blob.gen(r, tier)
    arm = r.choice(('sched', 'sched', 'crash', 'fail'))
    if arm == 'fail':
        ops = G.gen_history(ctx.subseed(seed, 'h'), 'file',
                            n=r.randint(3, 8),
                            weights={'new_oid': 0, 'wrong': 0, 'clock': 0,
                                     'reopen': 3, 'rtxn': 0, 'delete': 0,
                                     'undo': 8})
        for op in ops:
            for rec in op.get('recs', ()):
                rec.pop('refs', None)
                rec['size'] = min(rec.get('size', 0), 300)
        return {'arm': 'fail', 'ops': ops,
                'keep_old': r.random() < 0.5,
                'bufsize': r.choice((64, 512, 8192)), 'tier': tier,
                'where': r.choice(('after_all', 'at', 'between')),
                'at': r.randrange(8)}
    ncell = r.choice((1, 2, 3, 3, 8))
    nclient = r.choice((1, 2, 2, 3))
    scripts = []
    for i in range(nclient):
        sc = mvcc.gen_script(r, ncell, r.randint(2, 6),
                             write_p=r.choice((0.3, 0.7)), misc_p=0.1)
        if ncell == 8:
            # bulk transactions: more records than the sanity check of a
            # saved index looks at (the index of a pack must not be saved
            # while such a commit is half way into the index)
            for _ in range(r.randint(1, 2)):
                sc.insert(r.randrange(len(sc) + 1), {'steps': [
                    ['w', k] for k in r.sample(range(8), r.randint(6, 8))]})
        if r.random() < 0.3:
            sc.insert(r.randrange(1, len(sc) + 1), {'t': 'undo',
                                                    'k': -1 - r.randrange(2)})
        scripts.append(sc)
    packers = [{'delay': r.randrange(0, 120),
                'dt': r.choice((-2.0, -0.2, 0.0, 0.0, 0.3, 5.0))}]
    if r.random() < 0.35:
        packers.append({'delay': r.randrange(0, 200),
                        'dt': r.choice((-0.2, 0.0, 5.0))})
        if r.random() < 0.4:
            # a third caller: while one pack runs, a refused call must
            # not open the door for the next one
            packers.append({'delay': r.randrange(0, 250),
                            'dt': r.choice((-0.2, 0.0, 5.0))})
    return {'arm': arm, 'kind': 'file', 'ncell': ncell, 'scripts': scripts,
            'packers': packers,
            'st_opts': {'pack_keep_old': r.random() < 0.5},
            'explicit': [r.random() < 0.3 for _ in range(nclient)],
            'cache_size': r.choice((0, 4, 400)),
            'pool_size': r.choice((1, 7)),
            'bufsize': r.choice((16, 64, 512, 8192, 65536)),
            'classes': ['Cell'] * ncell,
            'sched': mvcc.sched_config(r),
            'tick': r.choice((0.37, 0.37, 1e-7)), 'tier': tier,
            'prefill': r.randint(1, 4)}


# ---------------------------------------------------------------------------
# sched / crash arms


def packer_task(spec, packs):
    def run(w):
        from ZODB.FileStorage.FileStorage import FileStorageError
        s = w.sim.sched
        for _ in range(spec['delay']):
            s.yield_point('idle', None)
        st = w.db.storage
        lt = st.lastTransaction()
        t = TimeStamp(lt).timeTime() + spec['dt']
        stop = TimeStamp(*__import__('time').gmtime(t)[:5]
                         + (t % 60,)).raw()
        ev = {'stop': stop, 'start_seq': w.sim.seq,
              'start_log': len(w.sim.fs.log), 'outcome': None}
        packs.append(ev)
        try:
            w.db.pack(t)
            ev['outcome'] = 'ok'
        except FileStorageError as e:
            ev['outcome'] = 'refused:' + str(e)[:40]
        except Exception as e:      # noqa: B902
            ev['outcome'] = 'raised:%s:%s' % (type(e).__name__, str(e)[:60])
        ev['end_seq'] = w.sim.seq
        ev['end_log'] = len(w.sim.fs.log)
    return run


def prefill(w, n):
    """A few revisions per cell before the tasks start, so that a pack has
    something to remove."""
    c = dbh.Client(w.db, 'prefill')
    c.open()
    w.preknown = set()
    for _ in range(n):
        c.begin()
        wr = []
        for i in range(w.ncell):
            cell = c.root()['c%d' % i]
            t = w.tok()
            w.preknown.add(t)
            cell.token = t
            cell.n = cell.n + 1
            cell.log = cell.log + [t]
            wr.append((cell._p_oid, t))
        # recorded like a client commit (task index -1), so that the
        # complete history knows these revisions even after a pack
        w.rec.add('CI', -1, 0, wr)
        c.commit()
    c.close()


def run_sched(case):
    packs = []
    extra = [('packer%d' % i, packer_task(sp, packs))
             for i, sp in enumerate(case['packers'])]
    snap0 = {}

    class Hook:
        pass

    # build the world in two steps so that the op log starts after setup
    orig_setup = mvcc.World.setup

    def setup(self):
        orig_setup(self)
        prefill(self, case.get('prefill', 2))
        snap0['snap'] = self.sim.fs.snapshot()
        del self.sim.fs.log[:]
    mvcc.World.setup = setup
    try:
        w, s = mvcc.run_world(case, extra)
    finally:
        mvcc.World.setup = orig_setup
    w.packs = packs
    w.snap0 = snap0['snap']
    log = None
    try:
        for ev in packs:
            o = ev['outcome'] or 'unfinished'
            w.stats['pack:' + o.split(':')[0]] = \
                w.stats.get('pack:' + o.split(':')[0], 0) + 1
            # (a pack that cannot complete -- e.g. PackError because a
            # concurrent undo wrote a back pointer the packer's analysis
            # had not seen -- is allowed, provided the database stays
            # usable and unchanged: the checks below run regardless)
            if o.startswith('refused') and 'Already packing' not in o:
                w.flag('pack-raises-under-load', 'pack refused: %s' % o)
            if o.startswith('refused'):
                # legitimate only while another pack was running
                others = [x for x in packs if x is not ev
                          and x['start_seq'] <= ev.get('end_seq', 1 << 60)
                          and x.get('end_seq', 1 << 60) >= ev['start_seq']]
                if not others:
                    w.flag('pack-refused-alone', 'pack refused although no '
                           'other pack was running')
        log = w.final_log()
        revs = mvcc.full_history(w, log)
        mvcc.check_snapshots(w, log, revs=revs)
        mvcc.check_no_lost_updates(w, log, allow_gaps=True)
        mvcc.check_pokers(w, log, w.poker_results, packed=True)
        # readers: errors only for snapshots older than a pack time
        stops = [ev['stop'] for ev in packs if ev['outcome'] == 'ok']
        for ev in w.rec.events:
            if ev[1] != 'X':
                continue
            _, _, ci, tn, name, phase, start = ev
            if phase != 'read':
                continue
            if name != 'ReadConflictError':
                w.flag('reader-error', 'client %d txn %d got %s while '
                       'reading' % (ci, tn, name))
                continue
            # snapshot bound `start` (exclusive): older than the pack time
            # iff start - 1 <= stop for some completed/ongoing pack
            allstops = [e['stop'] for e in packs]
            if start is None or not any(p64(u64(start) - 1) <= sp
                                        for sp in allstops):
                w.flag('reader-error-new-snapshot', 'client %d txn %d got '
                       'ReadConflictError although its snapshot %r is not '
                       'older than any pack time %r'
                       % (ci, tn, start, allstops))
            else:
                w.stats['old_snapshot_readconflict'] = \
                    w.stats.get('old_snapshot_readconflict', 0) + 1
        if not s.deadlock and not s.capped:
            mvcc.check_final_state(w, log)
            # a further commit and a further pack succeed
            c = dbh.Client(w.db, 'tail')
            c.open()
            c.begin()
            cell = c.root()['c0']
            tk = w.tok()
            cell.token = tk
            cell.log = cell.log + [tk]
            cell.n = cell.n + 1
            c.commit()
            c.close()
            w.db.pack(w.sim.clock.now + 10)
            # reopened storage holds every acknowledged write
            toks = {}
            und = mvcc.undone_oids(w)
            for (ci, tn, written, inv, ret) in w.commits_ok:
                for o, t, b in written:
                    if o not in und:
                        toks.setdefault(o, []).append(t)
            w.db.close()
            from ZODB.FileStorage import FileStorage
            st = FileStorage(PATH)
            try:
                for oid in w.oids:
                    data, serial = st.load(oid)
                    lg = objs.decode_record(data)[1].get('log', [])
                    missing = [t for t in toks.get(oid, []) if t not in lg]
                    if missing:
                        w.flag('lost-after-reopen', 'after reopen %r lacks '
                               'acknowledged writes %r' % (oid, missing))
                b = w.sim.fs.read_bytes(PATH)
                hist, end, problems = fsparse.to_history(b)
                if problems or end != len(b):
                    w.flag('file-structure', 'after packs under load: %s'
                           % (problems[:1] or ['trailing bytes'],))
            finally:
                st.close()
    except Exception as e:      # noqa: B902
        import traceback
        w.flag('oracle-raises', '%s: %s | %s' % (
            type(e).__name__, str(e)[:80],
            ' / '.join(x.strip()[:70] for x in
                       traceback.format_exc().strip().splitlines()[-4:-1])))
    finally:
        try:
            w.db.close()
        except Exception:       # noqa: B902
            pass
    return w, s


def crash_cuts(w, s, case, stats, keys):
    """Cut the op log from the start of the first pack on; reopen."""
    from ZODB.FileStorage import FileStorage
    log = list(w.sim.fs.log)
    packs = [ev for ev in w.packs if ev['outcome'] == 'ok']
    if not packs:
        return 0
    first = min(ev['start_log'] for ev in packs)
    last = max(ev['end_log'] for ev in packs)
    # acknowledged commits by op-log index of their return
    acked = []
    for ev in w.rec.events:
        if ev[1] == 'CR':
            _, _, ci, tn, written, logidx = ev
            acked.append((logidx, written))
    und = mvcc.undone_oids(w)
    rep = simfs.Replayer(w.snap0, log)
    rsim = ctx.Sim(ctx.subseed(case['seed'], 'rec'), bufsize=case['bufsize'])
    rsim.clock.set(w.sim.clock.now + 1000)
    r = random.Random(ctx.subseed(case['seed'], 'cuts'))
    n = 0
    import zlib
    for k in range(first, min(last + 25, len(log)) + 1):
        rep.advance(k)
        op = log[k - 1] if k else None
        if op is not None and op[0] in ('write', 'truncate') \
                and k != first and r.random() < 0.5 \
                and op[0] != 'rename':
            # writes into .pack are many: sample them, keep all others
            pass
        img = rep.image(bufsize=case['bufsize'])
        n += 1
        rsim.fs = img
        img.sim = rsim
        ctx.activate(rsim)
        names = sorted(x.rsplit('/', 1)[1] for x in img.names)
        where = 'crash after op %d/%d (%s) files %s' % (
            k, len(log), (op[0] + ' ' + str(op[1])[-20:]) if op else '',
            names)
        keys.append('c|%x|%d' % (zlib.crc32(repr(sorted(
            (p, zlib.crc32(bytes(i.data))) for p, i in img.names.items()
        )).encode()), len(names)))
        if PATH not in img.names:
            w.flag('crash-no-data-file', '%s: the data file does not exist; '
                   'opening would create an empty database' % where)
            continue
        try:
            st = FileStorage(PATH)
        except Exception as e:      # noqa: B902
            w.flag('crash-reopen-raises', '%s: %s: %s'
                   % (where, type(e).__name__, str(e)[:80]))
            continue
        try:
            for oid in w.oids:
                try:
                    data, serial = st.load(oid)
                except Exception as e:      # noqa: B902
                    w.flag('crash-lost-object', '%s: load(%r) raised %s'
                           % (where, oid, type(e).__name__))
                    continue
                lg = objs.decode_record(data)[1].get('log', [])
                must = [t for (li, written) in acked if li <= k
                        for (o, t) in written
                        if o == oid and o not in und]
                missing = [t for t in must if t not in lg]
                if missing:
                    w.flag('crash-lost-commit', '%s: %r lacks acknowledged '
                           'writes %r' % (where, oid, missing))
            b = img.read_bytes(PATH)
            hist, end, problems = fsparse.to_history(b)
            if problems or end != len(b):
                w.flag('crash-file-structure', '%s: %s'
                       % (where, problems[:1] or ['trailing bytes']))
            # root and cells load through a fresh DB as well
        finally:
            try:
                st.close()
            except Exception:       # noqa: B902
                pass
        if len(w.viol) >= 20:
            break
    ctx.activate(w.sim)
    stats['crash_cuts'] = n
    return n


# ---------------------------------------------------------------------------
# fail arm


def run_fail(case):
    from ZODB.serialize import referencesf
    viol = []
    stats = {}
    keys = []
    evals = 0

    def build():
        sim = ctx.activate(ctx.Sim(case['seed'], bufsize=case['bufsize']))
        d = Driver(sim, 'file', path=PATH,
                   opts={'pack_gc': False,
                         'pack_keep_old': case['keep_old']})
        for op in case['ops']:
            d.execute(op)
        return sim, d

    try:
        sim, d = build()
    except Violation:
        return {'violations': [], 'stats': {}, 'keys': [], 'evals': 1,
                'sample': None, 'digest': 'x'}
    if d.viol:
        viol.extend(('history:' + o, x) for o, x in d.viol)
    t = d.pack_time({'where': case['where'], 'at': case['at']})
    n0 = sim.fs.nraw
    ops_before = len(sim.fs.log)
    try:
        d.st.pack(t, referencesf)
        dry = 'ok'
    except Exception as e:      # noqa: B902
        dry = 'raised:' + type(e).__name__
    npack = sim.fs.nraw - n0
    kinds = [op[0] for op in sim.fs.log[ops_before:]]
    d.close()
    stats['dry:' + dry.split(':')[0]] = 1
    stats['pack_raw_ops'] = npack
    sim_time = sim.clock.elapsed()
    outcomes = []
    if dry == 'ok' and not viol:
        shapes = [('enospc', 1), ('eio', 1), ('enospc', None)]
        allops = ('write', 'truncate', 'fsync', 'rename', 'remove',
                  'create')
        for i in range(npack):
            for kind_, span in shapes:
                sim, d = build()
                fs = sim.fs
                pre_model = d.model
                e = {'at': i, 'kind': kind_, 'span': span,
                     # a persistent window models a full disk: removals
                     # and renames still work
                     'ops': allops if span else ('write', 'truncate',
                                                 'fsync', 'create')}
                plan = fs.arm(simfs.FaultPlan([e]))
                raised = None
                try:
                    d.st.pack(t, referencesf)
                except Exception as ex:     # noqa: B902
                    raised = ex
                fired = len(plan.fired)
                fs.disarm()
                evals += 1
                nv0 = len(viol)
                fam = ''
                if plan.fired and plan.fired[0][1] == 'rename' and \
                        str(plan.fired[0][2]).endswith('.pack'):
                    fam = 'swap-second-rename-fails/'
                label = 'pack op %d/%d %s%s' % (
                    i, npack, kind_, '' if span else ' persistent')
                if fired:
                    for f in plan.fired:
                        stats['fault:' + f[0] + ':' + f[1]] = \
                            stats.get('fault:' + f[0] + ':' + f[1], 0) + 1
                    keys.append('f|%x|%d|%s|%s' % (
                        ctx.subseed(case['seed'], 'k') & 0xffffff, i, kind_,
                        span))
                outcomes.append((label, type(raised).__name__
                                 if raised else 'completed', fired))
                # after the pack (failed or not) the storage is usable and
                # shows the same state
                if raised is not None:
                    stats['pack_failed'] = stats.get('pack_failed', 0) + 1
                    bad = sweep(d.st, pre_model, d.caps,
                                tag=label + ' after failed pack: ')
                    if bad and not any(b[1].find("'err'") >= 0
                                       for b in bad):
                        # the failure came after the swap (saving the
                        # index, removing .old): the storage then is the
                        # packed one -- accepted if it is C07-equivalent
                        try:
                            d.verify_pack({'pre': pre_model,
                                           'stop': d.pack_stop(t),
                                           'gc': False, 'raised': None,
                                           'changed': False, 't': t})
                            bad2 = sweep(d.st, d.model, d.caps,
                                         tag=label + ' after failed pack '
                                         '(as packed): ')
                        except Violation:
                            bad2 = bad
                        if not bad2 and not d.viol:
                            stats['pack_failed_after_swap'] = \
                                stats.get('pack_failed_after_swap', 0) + 1
                            bad = []
                        del d.viol[:]
                    for name, msg in bad[:2]:
                        viol.append(('failed-pack-changed:' + name, msg))
                    if d.st._pack_is_in_progress:
                        viol.append(('failed-pack-still-in-progress', label))
                    if isinstance(raised, OSError) and \
                            fs.exists(PATH + '.pack'):
                        # not demanded by the property: counted only
                        stats['probe:pack file left behind'] = \
                            stats.get('probe:pack file left behind', 0) + 1
                    try:
                        out = d.execute({'op': 'txn', 'recs': [
                            {'o': 1, 'size': 10}]})
                        if out != 'commit':
                            viol.append(('failed-pack-blocks-commit',
                                         '%s: follow-up %s' % (label, out)))
                    except ctx.SimDeadlock:
                        viol.append(('failed-pack-keeps-commit-lock', label))
                    except Violation:
                        pass
                    except Exception as ex:     # noqa: B902
                        viol.append(('failed-pack-breaks-storage',
                                     '%s: follow-up commit raised %s: %s'
                                     % (label, type(ex).__name__,
                                        str(ex)[:80])))
                    for o, x in d.viol:
                        viol.append(('after-failed-pack:' + o,
                                     label + ': ' + x))
                    del d.viol[:]
                    try:
                        out = d.execute({'op': 'pack', 't': t})
                    except Violation:
                        out = 'pack'
                    if out.startswith('pack-raises'):
                        viol.append(('failed-pack-blocks-next-pack',
                                     '%s: a further pack: %s' % (label, out)))
                    for o, x in d.viol:
                        viol.append(('after-failed-pack:' + o,
                                     label + ': ' + x))
                    del d.viol[:]
                else:
                    # the fault hit a step the pack tolerates (or nothing)
                    try:
                        d.verify_pack({'pre': pre_model,
                                       'stop': d.pack_stop(t), 'gc': False,
                                       'raised': None, 'changed': False,
                                       't': t})
                        d.full_sweep(label + ' after pack: ')
                    except Violation:
                        pass
                    for o, x in d.viol:
                        viol.append(('pack-with-fault:' + o,
                                     label + ': ' + x))
                try:
                    d.execute({'op': 'reopen'})
                except Violation:
                    pass
                for o, x in d.viol:
                    viol.append(('reopen-after-pack-fault:' + o,
                                 label + ': ' + x))
                try:
                    d.close()
                except Exception:       # noqa: B902
                    pass
                if fam:
                    viol[nv0:] = [(fam + o, x) for o, x in viol[nv0:]]
                if len(viol) >= 12:
                    break
            if len(viol) >= 12:
                break
    stats['sim_time_s'] = sim_time
    stats['arm:fail'] = 1
    return {
        'violations': [{'oracle': o, 'detail': x} for o, x in viol[:20]],
        'stats': stats, 'keys': keys, 'evals': max(evals, 1),
        'sample': {'arm': 'fail', 'ops': case['ops'],
                   'pack_op_kinds': kinds, 'variants': outcomes[:30]},
        'digest': ctx.Sim(0).digest(repr(outcomes), repr(viol)),
    }


def run(case):
    if case['arm'] == 'fail':
        return run_fail(case)
    if case['arm'] == 'blobrace':
        from . import c08blob
        return c08blob.run(case)
    w, s = run_sched(case)
    stats = dict(w.stats)
    keys = []
    evals = 1
    import zlib
    trace = zlib.crc32(repr(s.trace).encode())
    overlapped = False
    for ev in w.packs:
        if ev['outcome'] == 'ok':
            for e2 in w.rec.events:
                if e2[1] == 'F' and ev['start_seq'] < e2[0] < ev.get(
                        'end_seq', 0):
                    overlapped = True
    if overlapped:
        stats['packs_overlapping_commits'] = 1
        keys.append('s|%x' % trace)
    if case['arm'] == 'crash' and not w.viol and not s.deadlock \
            and not s.capped:
        evals = max(1, crash_cuts(w, s, case, stats, keys))
    stats['sim_time_s'] = w.sim.clock.elapsed()
    stats['arm:' + case['arm']] = 1
    stats['commits'] = len(w.commits_ok)
    for t in w.tasks:
        for o in t.outcomes:
            stats['outcome:' + o] = stats.get('outcome:' + o, 0) + 1
    for k, n in w.sim.probes.items():
        stats['probe:' + k] = n
    return {
        'violations': [{'oracle': o, 'detail': x} for o, x in w.viol[:20]],
        'stats': stats, 'keys': keys, 'evals': evals,
        'sample': {'arm': case['arm'], 'scripts': case['scripts'],
                   'packers': case['packers'], 'sched': case['sched'],
                   'packs': [{k: (v if not isinstance(v, bytes) else v.hex())
                              for k, v in ev.items()} for ev in w.packs],
                   'outcomes': [t.outcomes for t in w.tasks],
                   'yield_points': s.steps},
        'digest': w.sim.digest(repr(w.rec.events), w.viol, s.trace, evals),
        'schedule': list(s.trace),
    }


LEVEL_TEXT = ('seeded search over schedules of packers, committers, readers '
              'and an undoer on real FileStorage/fspack code over the '
              'simulated disk (yield points at every lock operation and raw '
              'file I/O); per sampled run of the crash arm every op-log '
              'prefix from the start of the pack is reopened; per sampled '
              'history of the fail arm every raw operation of the pack is '
              'made to fail in three shapes.')
LEVEL_NOTE = ('sched/crash arms: <= 3 clients x <= 6 transactions, <= 2 '
              'packers; crash cuts at op granularity (torn writes of the '
              '.pack file are not cut byte-wise: the .pack file is never '
              'read back before the swap); fail arm uses pack_gc=False '
              'histories; one case in 25 (thorough: in 10): a blobrace arm (<= 3 threads '
              'committing or aborting blobs on a blob-enabled FileStorage '
              'beside <= 2 packers, pre-emption also at every mutating '
              'operation on the blob directory, os.makedirs level by level); '
              'trusted: scheduler, op log, history oracle')
TECHNIQUE = ('deterministic simulation: seeded scheduler over packer and '
             'client threads, enumerated crash images and failing '
             'operations of a pack')
