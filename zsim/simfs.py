"""simfs -- the simulated disk.

In-memory, inode based.  `open()` builds the real CPython buffering stack over
`SimRaw`, so user-space buffering behaves as in production and the op log is
exactly the sequence of low-level writes/truncates/renames/fsyncs a process
issued.  From a log prefix a crash image can be rebuilt.  Faults are injected
at the raw operation.

Paths outside SIMROOT pass through to the real OS (blob directories, repozo
repositories); faults can still be injected at the call.
"""

import builtins
import errno
import io
import os as _os
import stat as _stat

from . import SIMROOT
from . import ctx

_real_open = builtins.open

MUTATING = ('write', 'truncate', 'fsync', 'rename', 'remove', 'create',
            'link', 'mkdir', 'rmdir')


def is_sim(path):
    if not isinstance(path, str):
        return False
    return path == SIMROOT or path.startswith(SIMROOT + '/')


class InjectedFault(OSError):
    """OSError subclass so harness code can tell injected errors apart."""


class FaultPlan:
    """Decides which raw operations fail.

    entries: list of dicts
      at      -- index (0-based) among matching ops counted since arming
      kind    -- 'enospc' | 'eio' | 'short'
      nbytes  -- for 'short': bytes that land before the error
      span    -- number of consecutive matching ops that fail (1 = transient);
                 None = persistent until disarm()
      ops     -- tuple of op kinds that match (default: write/truncate/fsync)
      suffix  -- only files whose path ends with this (default any)
    """

    DEFAULT_OPS = ('write', 'truncate', 'fsync')

    def __init__(self, entries):
        self.entries = [dict(e) for e in entries]
        self.count = 0
        self.fired = []
        self.pending_short = None
        self.active = True

    def disarm(self):
        self.active = False

    def check(self, kind, path, nbytes):
        """Return None, ('raise', errno) or ('short', j)."""
        if not self.active:
            return None
        hit = None
        matched_any = False
        for e in self.entries:
            ops = e.get('ops') or self.DEFAULT_OPS
            if kind not in ops:
                continue
            suf = e.get('suffix')
            if suf is not None and not (path or '').endswith(suf):
                continue
            matched_any = True
            at = e['at']
            span = e.get('span', 1)
            n = self.count
            if n < at:
                continue
            if span is not None and n >= at + span:
                continue
            hit = e
            break
        if self.pending_short is not None and kind == 'write':
            # the retry of the remainder of a short write fails
            e = self.pending_short
            self.pending_short = None
            if matched_any:
                self.count += 1
            self.fired.append(('short-fail', kind, path))
            return ('raise', errno.ENOSPC)
        if matched_any:
            self.count += 1
        if hit is None:
            return None
        k = hit['kind']
        if k == 'short' and kind == 'write' and nbytes and nbytes > 1:
            j = min(max(1, hit.get('nbytes', nbytes // 2)), nbytes - 1)
            self.pending_short = hit
            self.fired.append(('short', kind, path, j))
            return ('short', j)
        self.fired.append((k, kind, path))
        return ('raise', errno.EIO if k == 'eio' else errno.ENOSPC)


class Inode:
    __slots__ = ('ino', 'data', 'nlink')

    def __init__(self, ino, data=b''):
        self.ino = ino
        self.data = bytearray(data)
        self.nlink = 0


class SimFS:

    def __init__(self, sim=None, bufsize=8192):
        self.sim = sim
        self.bufsize = bufsize
        self.names = {}
        self.dirs = {SIMROOT}
        self.log = []
        self.logging = True
        self.next_ino = 1
        self.fds = {}
        self.next_fd = 100000
        self.locks = set()
        self.plan = None
        self.nraw = 0          # number of raw mutating ops performed
        self.open_files = []   # weak bookkeeping for leak checks (paths)

    # -- helpers ---------------------------------------------------------

    def _yield(self, kind, path):
        sim = self.sim
        if sim is not None:
            if sim.io_budget is not None:
                sim.io_steps += 1
                if sim.io_steps > sim.io_budget:
                    raise ctx.StepCap('raw I/O budget exceeded')
            s = sim.sched
            if s is not None:
                s.yield_point('io.' + kind, path)

    def _fault(self, kind, path, nbytes=0):
        plan = self.plan
        if plan is None:
            return None
        r = plan.check(kind, path, nbytes)
        if r is not None and self.sim is not None:
            self.sim.faults_fired[plan.fired[-1][0]] += 1
        if r is not None and r[0] == 'raise':
            raise InjectedFault(r[1], _os.strerror(r[1]), path)
        return r

    def _log(self, *op):
        self.nraw += 1
        if self.logging:
            self.log.append(op)

    def arm(self, plan):
        self.plan = plan
        return plan

    def disarm(self):
        self.plan = None

    # -- namespace operations -------------------------------------------

    def exists(self, path):
        return path in self.names or path in self.dirs

    def _parent_ok(self, path):
        d = path.rsplit('/', 1)[0]
        if d not in self.dirs:
            raise FileNotFoundError(errno.ENOENT, 'No such directory', path)

    def create(self, path):
        self._parent_ok(path)
        self._fault('create', path)
        ino = Inode(self.next_ino)
        self.next_ino += 1
        ino.nlink = 1
        self.names[path] = ino
        self._log('create', path, ino.ino)
        return ino

    def rename(self, src, dst):
        self._yield('rename', src)
        if src in self.dirs:
            raise OSError(errno.ENOTSUP, 'sim: directory rename', src)
        if src not in self.names:
            raise FileNotFoundError(errno.ENOENT, 'No such file', src)
        self._parent_ok(dst)
        self._fault('rename', src)
        ino = self.names.pop(src)
        old = self.names.get(dst)
        if old is not None:
            old.nlink -= 1
        self.names[dst] = ino
        self._log('rename', src, dst)

    def remove(self, path):
        self._yield('remove', path)
        if path not in self.names:
            if path in self.dirs:
                raise IsADirectoryError(errno.EISDIR, 'Is a directory', path)
            raise FileNotFoundError(errno.ENOENT, 'No such file', path)
        self._fault('remove', path)
        ino = self.names.pop(path)
        ino.nlink -= 1
        self._log('remove', path)

    def link(self, src, dst):
        self._yield('link', src)
        if src not in self.names:
            raise FileNotFoundError(errno.ENOENT, 'No such file', src)
        if dst in self.names:
            raise FileExistsError(errno.EEXIST, 'File exists', dst)
        self._parent_ok(dst)
        self._fault('link', src)
        ino = self.names[src]
        ino.nlink += 1
        self.names[dst] = ino
        self._log('link', src, dst)

    def mkdir(self, path):
        if self.exists(path):
            raise FileExistsError(errno.EEXIST, 'File exists', path)
        self._parent_ok(path)
        self._fault('mkdir', path)
        self.dirs.add(path)
        self._log('mkdir', path)

    def makedirs(self, path, mode=0o777, exist_ok=False):
        if path in self.dirs:
            if exist_ok:
                return
            raise FileExistsError(errno.EEXIST, 'File exists', path)
        parent = path.rsplit('/', 1)[0]
        if parent and parent not in self.dirs:
            self.makedirs(parent, exist_ok=True)
        self.mkdir(path)

    def rmdir(self, path):
        if path not in self.dirs:
            raise FileNotFoundError(errno.ENOENT, 'No such directory', path)
        pre = path + '/'
        for n in list(self.names) + list(self.dirs):
            if n.startswith(pre):
                raise OSError(errno.ENOTEMPTY, 'Directory not empty', path)
        self._fault('rmdir', path)
        self.dirs.discard(path)
        self._log('rmdir', path)

    def listdir(self, path):
        if path not in self.dirs:
            raise FileNotFoundError(errno.ENOENT, 'No such directory', path)
        pre = path + '/'
        out = set()
        for n in list(self.names) + list(self.dirs):
            if n.startswith(pre):
                out.add(n[len(pre):].split('/', 1)[0])
        return sorted(out)

    def getsize(self, path):
        if path in self.names:
            return len(self.names[path].data)
        if path in self.dirs:
            return 4096
        raise FileNotFoundError(errno.ENOENT, 'No such file', path)

    def stat(self, path):
        if path in self.names:
            ino = self.names[path]
            return _os.stat_result((_stat.S_IFREG | 0o644, ino.ino, 1,
                                    ino.nlink, 0, 0, len(ino.data), 0, 0, 0))
        if path in self.dirs:
            return _os.stat_result((_stat.S_IFDIR | 0o755, 0, 1, 2, 0, 0,
                                    4096, 0, 0, 0))
        raise FileNotFoundError(errno.ENOENT, 'No such file', path)

    def fsync_fd(self, fd):
        raw = self.fds.get(fd)
        if raw is None:
            raise OSError(errno.EBADF, 'Bad file descriptor')
        self._yield('fsync', raw.name)
        self._fault('fsync', raw.name)
        self._log('fsync', raw.inode.ino)

    # -- file contents ---------------------------------------------------

    def read_bytes(self, path):
        return bytes(self.names[path].data)

    def write_bytes(self, path, data, log=False):
        """Harness helper: plant a file (not a simulated process action)."""
        ino = self.names.get(path)
        if ino is None:
            self._parent_ok(path)
            ino = Inode(self.next_ino)
            self.next_ino += 1
            ino.nlink = 1
            self.names[path] = ino
            if log and self.logging:
                self.log.append(('create', path, ino.ino))
        ino.data[:] = data
        if log and self.logging:
            self.log.append(('truncate', ino.ino, 0))
            self.log.append(('write', ino.ino, 0, bytes(data)))

    def unlink_quiet(self, path):
        ino = self.names.pop(path, None)
        if ino is not None:
            ino.nlink -= 1

    def image(self):
        """{path: bytes} of every file (canonical, for comparisons)."""
        return {p: bytes(i.data) for p, i in sorted(self.names.items())}

    def snapshot(self):
        inodes = {}
        files = {}
        for p, i in self.names.items():
            files[p] = i.ino
            if i.ino not in inodes:
                inodes[i.ino] = bytes(i.data)
        return {'files': files, 'inodes': inodes, 'dirs': set(self.dirs),
                'next_ino': self.next_ino}

    @classmethod
    def from_snapshot(cls, snap, sim=None, bufsize=8192):
        fs = cls(sim, bufsize=bufsize)
        inodes = {}
        for p, n in snap['files'].items():
            i = inodes.get(n)
            if i is None:
                i = inodes[n] = Inode(n, snap['inodes'][n])
            i.nlink += 1
            fs.names[p] = i
        fs.dirs = set(snap['dirs'])
        fs.next_ino = snap['next_ino']
        return fs

    def clone(self, sim=None):
        return SimFS.from_snapshot(self.snapshot(), sim or self.sim,
                                   self.bufsize)

    # -- open ------------------------------------------------------------

    def open(self, path, mode='r', buffering=-1, encoding=None, errors=None,
             newline=None):
        binary = 'b' in mode
        m = mode.replace('b', '').replace('t', '')
        plus = '+' in m
        m = m.replace('+', '')
        if m not in ('r', 'w', 'a', 'x'):
            raise ValueError('invalid mode: %r' % mode)
        self._yield('open', path)
        if path in self.dirs:
            raise IsADirectoryError(errno.EISDIR, 'Is a directory', path)
        ino = self.names.get(path)
        if m == 'r':
            if ino is None:
                raise FileNotFoundError(errno.ENOENT,
                                        'No such file or directory', path)
        elif m == 'x':
            if ino is not None:
                raise FileExistsError(errno.EEXIST, 'File exists', path)
            ino = self.create(path)
        else:
            if ino is None:
                ino = self.create(path)
            elif m == 'w' and len(ino.data):
                self._fault('truncate', path)
                del ino.data[:]
                self._log('truncate', ino.ino, 0)
        readable = m == 'r' or plus
        writable = m != 'r' or plus
        raw = SimRaw(self, ino, path, readable, writable, m == 'a',
                     mode if binary else mode)
        if buffering == 0:
            if not binary:
                raise ValueError("can't have unbuffered text I/O")
            return raw
        bs = self.bufsize if buffering < 0 else max(buffering, 1)
        if readable and writable:
            buf = io.BufferedRandom(raw, bs)
        elif writable:
            buf = io.BufferedWriter(raw, bs)
        else:
            buf = io.BufferedReader(raw, bs)
        f = SimFile(self, buf, raw, path, mode)
        if binary:
            return f
        return io.TextIOWrapper(buf, encoding or 'utf-8', errors, newline)


class SimRaw(io.RawIOBase):

    def __init__(self, fs, inode, path, readable, writable, append, mode):
        self.fs = fs
        self.inode = inode
        self.name = path
        self.mode = mode
        self._r = readable
        self._w = writable
        self._a = append
        self._pos = len(inode.data) if append else 0
        self._fd = fs.next_fd
        fs.next_fd += 1
        fs.fds[self._fd] = self

    def readable(self):
        return self._r

    def writable(self):
        return self._w

    def seekable(self):
        return True

    def fileno(self):
        return self._fd

    def isatty(self):
        return False

    def readinto(self, b):
        if self.closed:
            raise ValueError('I/O operation on closed file')
        self.fs._yield('read', self.name)
        data = self.inode.data
        n = min(len(b), max(0, len(data) - self._pos))
        if n:
            b[:n] = data[self._pos:self._pos + n]
            self._pos += n
        return n

    def write(self, b):
        if self.closed:
            raise ValueError('I/O operation on closed file')
        if not self._w:
            raise io.UnsupportedOperation('not writable')
        fs = self.fs
        fs._yield('write', self.name)
        b = bytes(b)
        n = len(b)
        r = fs._fault('write', self.name, n)
        if r is not None and r[0] == 'short':
            n = r[1]
            b = b[:n]
        data = self.inode.data
        if self._a:
            self._pos = len(data)
        pos = self._pos
        if pos > len(data):
            data.extend(b'\0' * (pos - len(data)))
        data[pos:pos + n] = b
        self._pos = pos + n
        fs._log('write', self.inode.ino, pos, b)
        return n

    def seek(self, off, whence=0):
        if whence == 0:
            p = off
        elif whence == 1:
            p = self._pos + off
        else:
            p = len(self.inode.data) + off
        if p < 0:
            raise OSError(errno.EINVAL, 'Invalid argument')
        self._pos = p
        return p

    def tell(self):
        return self._pos

    def truncate(self, size=None):
        if not self._w:
            raise io.UnsupportedOperation('not writable')
        fs = self.fs
        fs._yield('truncate', self.name)
        if size is None:
            size = self._pos
        fs._fault('truncate', self.name)
        data = self.inode.data
        if size < len(data):
            del data[size:]
        elif size > len(data):
            data.extend(b'\0' * (size - len(data)))
        fs._log('truncate', self.inode.ino, size)
        return size

    def close(self):
        if not self.closed:
            self.fs.fds.pop(self._fd, None)
        super().close()


class SimFile:
    """What ZODB gets from open(): a thin proxy around the C buffered object.

    Models the buffered object's internal lock: while one task is inside a
    method (possibly parked at a raw-I/O yield point) another task calling
    into the same object is blocked in the scheduler.
    """

    def __init__(self, fs, buf, raw, path, mode):
        self._fs = fs
        self._buf = buf
        self._raw = raw
        self.name = path
        self.mode = mode
        self._busy = None
        self._depth = 0

    def _enter(self):
        sim = self._fs.sim
        s = sim.sched if sim is not None else None
        if s is None:
            return None
        me = s.current
        if self._busy is not None and self._busy is not me:
            sim.probe('concurrent use of one file object')
            s.wait_for(lambda: self._busy is None, ('file', self.name))
        self._busy = me
        self._depth += 1
        return s

    def _exit(self, s):
        if s is not None:
            self._depth -= 1
            if not self._depth:
                self._busy = None

    def read(self, n=-1):
        s = self._enter()
        try:
            return self._buf.read(n)
        finally:
            self._exit(s)

    def read1(self, n=-1):
        s = self._enter()
        try:
            return self._buf.read1(n)
        finally:
            self._exit(s)

    def readinto(self, b):
        s = self._enter()
        try:
            return self._buf.readinto(b)
        finally:
            self._exit(s)

    def readline(self, n=-1):
        s = self._enter()
        try:
            return self._buf.readline(n)
        finally:
            self._exit(s)

    def readlines(self, hint=-1):
        s = self._enter()
        try:
            return self._buf.readlines(hint)
        finally:
            self._exit(s)

    def peek(self, n=0):
        s = self._enter()
        try:
            return self._buf.peek(n)
        finally:
            self._exit(s)

    def write(self, b):
        s = self._enter()
        try:
            return self._buf.write(b)
        finally:
            self._exit(s)

    def seek(self, off, whence=0):
        s = self._enter()
        try:
            return self._buf.seek(off, whence)
        finally:
            self._exit(s)

    def tell(self):
        s = self._enter()
        try:
            return self._buf.tell()
        finally:
            self._exit(s)

    def truncate(self, size=None):
        s = self._enter()
        try:
            return self._buf.truncate(size)
        finally:
            self._exit(s)

    def flush(self):
        s = self._enter()
        try:
            return self._buf.flush()
        finally:
            self._exit(s)

    def close(self):
        s = self._enter()
        try:
            return self._buf.close()
        finally:
            self._exit(s)

    def fileno(self):
        return self._raw.fileno()

    def readable(self):
        return self._buf.readable()

    def writable(self):
        return self._buf.writable()

    def seekable(self):
        return True

    @property
    def closed(self):
        return self._buf.closed

    def __enter__(self):
        return self

    def __exit__(self, *a):
        self.close()

    def __iter__(self):
        return self

    def __next__(self):
        line = self.readline()
        if not line:
            raise StopIteration
        return line


# ---------------------------------------------------------------------------
# crash images


def apply_op(files, inodes, dirs, op, torn=None):
    """Apply one logged op to (files: path->ino, inodes: ino->bytearray)."""
    k = op[0]
    if k == 'write':
        _, ino, off, b = op
        if torn is not None:
            b = b[:torn]
        d = inodes[ino]
        if off > len(d):
            d.extend(b'\0' * (off - len(d)))
        d[off:off + len(b)] = b
    elif k == 'truncate':
        _, ino, size = op
        d = inodes[ino]
        if size < len(d):
            del d[size:]
        else:
            d.extend(b'\0' * (size - len(d)))
    elif k == 'create':
        _, path, ino = op
        files[path] = ino
        inodes[ino] = bytearray()
    elif k == 'rename':
        _, src, dst = op
        files[dst] = files.pop(src)
    elif k == 'remove':
        files.pop(op[1], None)
    elif k == 'link':
        files[op[2]] = files[op[1]]
    elif k == 'mkdir':
        dirs.add(op[1])
    elif k == 'rmdir':
        dirs.discard(op[1])
    elif k == 'fsync':
        pass
    else:
        raise AssertionError(op)


class Replayer:
    """Incrementally rebuilds the disk after each prefix of an op log."""

    def __init__(self, snap, log):
        self.files = dict(snap['files'])
        self.inodes = {n: bytearray(b) for n, b in snap['inodes'].items()}
        self.dirs = set(snap['dirs'])
        self.next_ino = snap['next_ino']
        self.log = log
        self.k = 0

    def advance(self, k):
        while self.k < k:
            op = self.log[self.k]
            apply_op(self.files, self.inodes, self.dirs, op)
            if op[0] == 'create' and op[2] >= self.next_ino:
                self.next_ino = op[2] + 1
            self.k += 1

    def image(self, torn=None, sim=None, bufsize=8192):
        """SimFS after the first k ops, plus (if torn is not None) the first
        `torn` bytes of write op k."""
        files = dict(self.files)
        live = set(files.values())
        inodes = {n: bytearray(b) for n, b in self.inodes.items()
                  if n in live}
        dirs = set(self.dirs)
        if torn is not None:
            op = self.log[self.k]
            assert op[0] == 'write'
            if op[1] in inodes:
                apply_op(files, inodes, dirs, op, torn)
        snap = {'files': files, 'inodes': inodes, 'dirs': dirs,
                'next_ino': self.next_ino + 1000}
        return SimFS.from_snapshot(snap, sim, bufsize)


# ---------------------------------------------------------------------------
# the seams: open(), os, fsync, LockFile


def _fs():
    sim = ctx.CUR
    return sim.fs if sim is not None else None


def _real_fault(kind, path):
    """Fault injection for pass-through (real tmpfs) operations."""
    fs = _fs()
    if fs is not None and fs.plan is not None:
        fs._fault('real.' + kind, path)
    if fs is not None and getattr(fs.sim, 'real_yield', False):
        # blobs-and-threads worlds: every operation on the real scratch
        # directory is a pre-emption point (the path is not logged: it
        # holds the process id)
        sc = fs.sim.sched
        if sc is not None:
            sc.yield_point('real.' + kind, None)


def sim_open(path, mode='r', buffering=-1, encoding=None, errors=None,
             newline=None, closefd=True, opener=None):
    fs = _fs()
    if fs is not None and is_sim(path):
        return fs.open(path, mode, buffering, encoding, errors, newline)
    if fs is not None and isinstance(path, str):
        _real_fault('open', path)
    return _real_open(path, mode, buffering, encoding, errors, newline,
                      closefd, opener)


def sim_fsync(fd):
    fs = _fs()
    if fs is not None and fd in fs.fds:
        return fs.fsync_fd(fd)
    return _os.fsync(fd)


class PathProxy:

    def __getattr__(self, name):
        return getattr(_os.path, name)

    def exists(self, path):
        fs = _fs()
        if fs is not None and is_sim(path):
            return fs.exists(path)
        return _os.path.exists(path)

    lexists = exists

    def isfile(self, path):
        fs = _fs()
        if fs is not None and is_sim(path):
            return path in fs.names
        return _os.path.isfile(path)

    def isdir(self, path):
        fs = _fs()
        if fs is not None and is_sim(path):
            return path in fs.dirs
        return _os.path.isdir(path)

    def getsize(self, path):
        fs = _fs()
        if fs is not None and is_sim(path):
            return fs.getsize(path)
        return _os.path.getsize(path)


class OsProxy:
    """Stands in for the module `os` inside ZODB modules."""

    def __init__(self):
        self.path = PathProxy()

    def __getattr__(self, name):
        return getattr(_os, name)

    def rename(self, src, dst):
        fs = _fs()
        if fs is not None and is_sim(src):
            return fs.rename(src, dst)
        _real_fault('rename', src)
        return _os.rename(src, dst)

    replace = rename

    def remove(self, path):
        fs = _fs()
        if fs is not None and is_sim(path):
            return fs.remove(path)
        _real_fault('remove', path)
        return _os.remove(path)

    unlink = remove

    def link(self, src, dst):
        fs = _fs()
        if fs is not None and is_sim(src):
            return fs.link(src, dst)
        _real_fault('link', src)
        return _os.link(src, dst)

    def mkdir(self, path, mode=0o777):
        fs = _fs()
        if fs is not None and is_sim(path):
            return fs.mkdir(path)
        _real_fault('mkdir', path)
        return _os.mkdir(path, mode)

    def makedirs(self, path, mode=0o777, exist_ok=False):
        fs = _fs()
        if fs is not None and is_sim(path):
            return fs.makedirs(path, mode, exist_ok)
        _real_fault('makedirs', path)
        if fs is not None and getattr(fs.sim, 'real_yield', False):
            return self._makedirs_by_level(path, mode, exist_ok)
        return _os.makedirs(path, mode, exist_ok)

    def _makedirs_by_level(self, path, mode, exist_ok):
        """os.makedirs as the library does it -- look at the parent, then
        create the leaf -- with a pre-emption point between the two (the
        call is not atomic on a real system either)."""
        head, tail = _os.path.split(path)
        if not tail:
            head, tail = _os.path.split(head)
        if head and tail and not _os.path.exists(head):
            try:
                self._makedirs_by_level(head, mode, exist_ok)
            except FileExistsError:
                pass
        _real_fault('mkdir', path)
        try:
            _os.mkdir(path, mode)
        except OSError:
            if not exist_ok or not _os.path.isdir(path):
                raise

    def rmdir(self, path):
        fs = _fs()
        if fs is not None and is_sim(path):
            return fs.rmdir(path)
        _real_fault('rmdir', path)
        return _os.rmdir(path)

    def listdir(self, path='.'):
        fs = _fs()
        if fs is not None and is_sim(path):
            return fs.listdir(path)
        return _os.listdir(path)

    def stat(self, path, **kw):
        fs = _fs()
        if fs is not None and is_sim(path):
            return fs.stat(path)
        return _os.stat(path, **kw)

    def chmod(self, path, mode, **kw):
        fs = _fs()
        if fs is not None and is_sim(path):
            return None
        _real_fault('chmod', path)
        return _os.chmod(path, mode, **kw)

    def fsync(self, fd):
        return sim_fsync(fd)


class SimLockFile:
    """zc.lockfile.LockFile for simulated paths: held per process
    incarnation; a crash (new SimFS) drops all holders, as flock does."""

    def __init__(self, path, content_template=None):
        import zc.lockfile
        fs = _fs()
        self._path = path
        self._fs = None
        self._real = None
        if fs is not None and is_sim(path):
            if path in fs.locks:
                raise zc.lockfile.LockError("Couldn't lock %r" % path)
            fs.locks.add(path)
            if path not in fs.names:
                fs.write_bytes(path, b' 1\n', log=True)
            self._fs = fs
        else:
            self._real = zc.lockfile.LockFile(path)

    def close(self):
        if self._fs is not None:
            self._fs.locks.discard(self._path)
            self._fs = None
        elif self._real is not None:
            self._real.close()
            self._real = None
