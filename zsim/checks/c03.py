"""C03 -- no lost updates: writers of the same object cannot both commit
blindly (DESIGN §6 C03)."""

import random

from ZODB.Connection import TransactionMetaData
from ZODB.POSException import ConflictError
from ZODB.POSException import ReadConflictError
from ZODB.utils import z64

from .. import ctx
from .. import dbh
from .. import mvcc
from .. import objs
from .. import sched as S
from .. import seams
from ..model import Log

ID = 'C03'
LEVEL = 'exploration'
RULE = ('12 % of the runs: sequential storage histories (the shared '
        'driver) with stores from stale serials and declared dependencies '
        'on objects that were meanwhile rewritten, undone, un-created or '
        'deleted.  Otherwise: '
        'one run = 2-4 committer tasks doing read-modify-write on shared '
        'cells (append a unique token to the cell\'s log, increment n; some '
        'declare readCurrent dependencies) through Connections, or calling '
        'tpc_begin/store/tpc_vote/tpc_finish directly with serials loaded '
        'earlier, on FileStorage (simulated disk), MappingStorage and '
        'DemoStorage, with a per-run clock tick (incl. a stalled clock: '
        'consecutive ids) and, on FileStorage, a client that undoes one of '
        'its commits while others hold copies derived from it; '
        'interleaved by the seeded scheduler at lock and file '
        'I/O operations and, in the fine arm, at source lines inside '
        'ZODB; oracle: outcomes are success/ConflictError/'
        'ReadConflictError only, every committed revision extends the log '
        'of the revision immediately before it, acknowledged writes are all '
        'present, readCurrent dependencies were current at commit, a '
        'conflicting client can commit afterwards; non-trivial = >= 2 '
        'commits on a shared cell and >= 1 switch; distinct = schedule '
        'trace hash')
RULE += ('  '
         'Later additions: bystander tasks asking the storage itself '
         "with an oracle on their answers; the serial a connection's "
         'copy carries after its commit; on MappingStorage packing '
         'threads beside the committers with line-level pre-emption '
         'inside the storage. ')
BUDGET = {'quick': {'runs': 6000, 'wall': 300, 'chunk': 20},
          'thorough': {'runs': 450000, 'wall': 1200, 'chunk': 100}}
ASSUMPTIONS = [
    'conflict resolution results are judged by C10; here a merging class '
    'only has to keep every token of both sides',
]
SHRINK = ['scripts', 'ops']


def gen_hist(seed, tier):
    """Sequential storage histories (the C04 driver): stores from current
    and stale serials and declared dependencies (readCurrent) on objects
    that were meanwhile rewritten, undone, un-created or deleted."""
    from . import c04
    case = c04.gen_case(seed, tier)
    r = random.Random(ctx.subseed(seed, 'rc'))
    noids = 1 + max([rec['o'] for op in case['ops']
                     for rec in op.get('recs', ())] or [1])
    for op in case['ops']:
        if op.get('op') == 'txn' and 'rc' not in op and r.random() < 0.45:
            op['rc'] = [[r.randrange(noids), r.choice((None, None, 'stale'))]
                        for _ in range(r.choice((1, 1, 2)))]
        for rec in op.get('recs', ()):
            if 'serial' not in rec and r.random() < 0.25:
                rec['serial'] = r.choice(('stale', 'stale2'))
    case['arm'] = 'hist'
    case['sweep_p'] = 0.0
    return case


def gen(seed, tier):
    r = random.Random(seed)
    if r.random() < 0.12:
        return gen_hist(ctx.subseed(seed, 'hist'), tier)
    arm = r.choice(('conn', 'conn', 'conn', 'storage'))
    kind = r.choice(('file', 'file', 'mapping', 'demo:mapping',
                     'demo:file'))
    ncell = r.choice((1, 2, 3))
    nclient = r.choice((2, 2, 3, 4))
    fine = None
    if r.random() < 0.2:
        fine = {'p': r.choice((0.02, 0.1, 0.3)),
                'prefix': seams.repo_src() + '/ZODB'}
    sc = mvcc.sched_config(r)
    sc['fine'] = fine
    case = {'arm': arm, 'kind': kind, 'ncell': ncell,
            'cache_size': r.choice((0, 4, 400)),
            'pool_size': r.choice((1, 7)),
            'bufsize': r.choice((64, 8192, 65536)),
            'classes': [r.choice(('Cell', 'Cell', 'Merge'))
                        for _ in range(ncell)],
            'explicit': [r.random() < 0.3 for _ in range(nclient)],
            'sched': sc, 'tick': r.choice((0.37, 0.37, 1e-7, 45.0)),
            'tier': tier}
    if arm == 'conn':
        case['scripts'] = [
            mvcc.gen_script(r, ncell, r.randint(2, 6), write_p=0.7,
                            rc_p=0.15, abort_p=0.05, misc_p=0.08)
            for _ in range(nclient)]
        if kind == 'mapping' and r.random() < 0.5:
            # a packing thread beside the committers of a storage that
            # keeps everything in memory; line-level pre-emption inside it
            case['packers'] = [{'delay': r.randrange(0, 80),
                                'dt': r.choice((0.0, 5.0))}
                               for _ in range(r.choice((1, 2)))]
            case['sched']['fine'] = {
                'p': r.choice((0.1, 0.3)),
                'prefix': seams.repo_src() + '/ZODB/MappingStorage.py'}
        if r.random() < 0.25:
            # bystanders asking the storage itself (getTid, history,
            # loadSerial ... go through its own file handle)
            case['pokers'] = mvcc.gen_pokers(r, ncell)
        if r.random() < 0.3 and kind == 'file':
            # a client undoes one of its own commits while others hold
            # copies derived from the undone revision
            sc = r.choice(case['scripts'])
            sc.insert(r.randrange(1, len(sc) + 1),
                      {'t': 'undo', 'k': -1 - r.randrange(2)})
    else:
        scripts = []
        for _ in range(nclient):
            sc_ = []
            for _ in range(r.randint(2, 7)):
                if r.random() < 0.45:
                    sc_.append(['load', r.randrange(ncell)])
                else:
                    sc_.append(['commit',
                                sorted({r.randrange(ncell)
                                        for _ in range(r.choice((1, 1, 2)))}),
                                r.random() < 0.2])
            scripts.append(sc_)
        case['scripts'] = scripts
    return case


def run_storage_arm(case):
    """Tasks drive the storage API directly."""
    sim = ctx.activate(ctx.Sim(case['seed'], bufsize=case['bufsize']))
    st = dbh.make_storage(sim, case['kind'])
    viol = []
    counter = [0]
    oids = []
    acked = []

    def tok():
        counter[0] += 1
        return counter[0]

    # setup: create the cells
    t = TransactionMetaData(b'setup', b'', {})
    st.tpc_begin(t)
    classes = case['classes']
    for i in range(case['ncell']):
        oid = st.new_oid()
        oids.append(oid)
        k = tok()
        st.store(oid, z64, objs.make_record(
            classes[i % len(classes)],
            {'token': k, 'n': 0, 'log': [], 'refs': [], 'pad': ''}), '', t)
    st.tpc_vote(t)
    st.tpc_finish(t)
    outcomes = [[] for _ in case['scripts']]

    def client(idx, script):
        def run():
            known = {}          # oid -> (serial, state)
            for step in script:
                if step[0] == 'load':
                    oid = oids[step[1] % len(oids)]
                    data, serial = st.load(oid)
                    known[oid] = (serial, objs.decode_record(data)[1])
                    continue
                targets = [oids[k % len(oids)] for k in step[1]]
                for oid in targets:
                    if oid not in known:
                        data, serial = st.load(oid)
                        known[oid] = (serial, objs.decode_record(data)[1])
                tx = TransactionMetaData(b'c%d' % idx, b'', {})
                written = []
                try:
                    st.tpc_begin(tx)
                    for oid in targets:
                        serial, state = known[oid]
                        k = tok()
                        new = dict(state)
                        new['token'] = k
                        new['n'] = state.get('n', 0) + 1
                        new['log'] = list(state.get('log', [])) + [k]
                        new['refs'] = []
                        cls = classes[oids.index(oid) % len(classes)]
                        st.store(oid, serial, objs.make_record(cls, new),
                                 '', tx)
                        written.append((oid, k, (serial, None)))
                    if step[2]:
                        st.tpc_abort(tx)
                        outcomes[idx].append('abort')
                        continue
                    st.tpc_vote(tx)
                    st.tpc_finish(tx)
                    acked.append((idx, len(outcomes[idx]), written, 0, 0))
                    outcomes[idx].append('commit')
                    # what we wrote is now what we know (unless merged)
                    for oid in targets:
                        known.pop(oid, None)
                except ConflictError as e:
                    outcomes[idx].append(
                        'readconflict' if isinstance(e, ReadConflictError)
                        else 'conflict')
                    st.tpc_abort(tx)
                    for oid in targets:
                        known.pop(oid, None)
        return run

    sc = case['sched']
    s = S.Sched(sim, strategy=sc.get('strategy', 'random'),
                p_stay=sc.get('p_stay', 0.5), schedule=case.get('schedule'),
                pct_depth=sc.get('pct_depth', 3),
                est_steps=sc.get('est_steps', 400), fine=sc.get('fine'))
    for i, script in enumerate(case['scripts']):
        s.spawn('committer%d' % i, client(i, script))
    s.run()

    class W:
        pass
    w = W()
    w.viol = viol
    w.stats = {'yield_points': s.steps, 'switches': s.switches}
    w.oids = oids
    w.commits_ok = acked
    w.sim = sim
    w.tasks = []
    w.outcomes = outcomes

    def flag(o, x):
        if len(viol) < 20:
            viol.append((o, x))
    w.flag = flag
    if s.deadlock:
        flag('deadlock', repr(s.deadlock))
    if s.capped:
        w.stats['inconclusive_step_cap'] = 1
    for tk in s.tasks:
        if tk.exc is not None:
            flag('task-exception', '%s raised %s: %s | %s'
                 % (tk.name, type(tk.exc).__name__, str(tk.exc)[:80],
                    ' / '.join(x.strip()[:70] for x in
                               (tk.tb or '').strip().splitlines()[-5:-1])))
    log = Log()
    try:
        if case['kind'].startswith('demo'):
            dbh.adopt(log, st.base)
            dbh.adopt(log, st.changes)
        else:
            dbh.adopt(log, st)
        mvcc.check_no_lost_updates(w, log)
        # a further commit succeeds (no lock left behind)
        if not s.deadlock and not s.capped:
            tx = TransactionMetaData(b'tail', b'', {})
            st.tpc_begin(tx)
            data, serial = st.load(oids[0])
            st.store(oids[0], serial, data, '', tx)
            st.tpc_vote(tx)
            st.tpc_finish(tx)
    except ctx.SimDeadlock:
        flag('blocks-next', 'commit lock still held after the tasks ended')
    except Exception as e:      # noqa: B902
        flag('oracle-raises', '%s: %s' % (type(e).__name__, str(e)[:100]))
    finally:
        try:
            st.close()
        except Exception:       # noqa: B902
            pass
    return w, s


def run(case):
    if case['arm'] == 'hist':
        from . import c04
        res = c04.run(case)
        res['stats']['arm:hist'] = 1
        oc = (res.get('sample') or {}).get('outcomes') or []
        res['keys'] = ['h|%s|%s' % (case['kind'], ','.join(oc))] \
            if any(o in ('conflict', 'readconflict') for o in oc) else []
        return res
    if case['arm'] == 'storage':
        w, s = run_storage_arm(case)
        outcomes = w.outcomes
    else:
        extra = []
        packs = []
        if case.get('packers'):
            # packs of the storage while the clients commit (the conflict
            # test of a store must not look at a storage half collected)
            from . import c08
            extra = [('packer%d' % i, c08.packer_task(spec, packs))
                     for i, spec in enumerate(case['packers'])]
        w, s = mvcc.run_world(case, extra_tasks=extra)
        outcomes = [t.outcomes for t in w.tasks]
        try:
            log = w.final_log()
            mvcc.check_no_lost_updates(w, log, allow_gaps=bool(packs))
            if not packs:
                mvcc.check_read_current(w, log)
                mvcc.check_snapshots(w, log)
                mvcc.check_serials(w, log)
            mvcc.check_pokers(w, log, w.poker_results, packed=bool(packs))
            if not s.deadlock and not s.capped:
                mvcc.check_final_state(w, log)
                # every connection can commit afterwards (stale copies were
                # invalidated): open them all, then write through each
                cls = [dbh.Client(w.db, 'tail%d' % i)
                       for i in range(len(case['scripts']))]
                for c in cls:
                    c.open()
                for c in cls:
                    try:
                        c.begin()
                        for i in range(w.ncell):
                            cell = c.root()['c%d' % i]
                            cell.n = cell.n + 1
                            cell.log = cell.log + [w.tok()]
                        c.commit()
                    except ConflictError as e:
                        w.flag('retry-fails', 'with no concurrent writer a '
                               'connection still gets %s: its stale copy '
                               'was not invalidated' % type(e).__name__)
                        c.abort()
                for c in cls:
                    c.close()
        except Exception as e:      # noqa: B902
            import traceback
            w.flag('oracle-raises', '%s: %s | %s' % (
                type(e).__name__, str(e)[:80],
                ' / '.join(x.strip()[:70] for x in
                           traceback.format_exc().strip()
                           .splitlines()[-4:-1])))
        finally:
            try:
                w.db.close()
            except Exception:       # noqa: B902
                pass
    stats = dict(w.stats)
    stats['sim_time_s'] = w.sim.clock.elapsed()
    stats['kind:' + case['kind']] = 1
    stats['arm:' + case['arm']] = 1
    if case['sched'].get('fine'):
        stats['fine_mode_runs'] = 1
    stats['commits'] = len(w.commits_ok)
    for lst in outcomes:
        for o in lst:
            stats['outcome:' + o] = stats.get('outcome:' + o, 0) + 1
    import zlib
    trace = zlib.crc32(repr(s.trace).encode())
    shared = {}
    for (ci, tn, written, inv, ret) in w.commits_ok:
        for o, t, b in written:
            shared.setdefault(o, set()).add(ci)
    nontrivial = any(len(v) >= 2 for v in shared.values()) and s.switches
    return {
        'violations': [{'oracle': o, 'detail': x} for o, x in w.viol[:20]],
        'stats': stats,
        'keys': ['%s|%s|%x' % (case['arm'], case['kind'], trace)]
        if nontrivial else [],
        'evals': 1,
        'sample': {'arm': case['arm'], 'kind': case['kind'],
                   'scripts': case['scripts'], 'sched': case['sched'],
                   'outcomes': outcomes, 'yield_points': s.steps},
        'digest': w.sim.digest(outcomes, w.viol, s.trace),
        'schedule': list(s.trace),
    }


LEVEL_TEXT = ('seeded search over schedules of concurrent committers on '
              'real storages and Connections; the fine arm additionally '
              'pre-empts at source lines inside ZODB (sys.settrace); the '
              'committed history read back from the storage must form, per '
              'object, a chain in which every revision extends its '
              'immediate predecessor, contain every acknowledged write, and '
              'respect readCurrent dependencies.  Sampling, not proof.')
LEVEL_NOTE = ('<= 4 committers x <= 7 transactions on <= 3 cells; fine mode '
              'in ~20% of runs; trusted: scheduler, history oracle')
TECHNIQUE = ('deterministic simulation: seeded scheduler (lock/file-I/O and '
             'line-level pre-emption) over concurrent committers, '
             'derivation-chain oracle over committed history')
