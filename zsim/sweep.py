"""The full query sweep: every revision query of a storage compared with the
reference model (DESIGN §5.1)."""

import pickle

from ZODB.POSException import POSKeyError
from ZODB.utils import p64
from ZODB.utils import u64

from .model import UNCREATE
from .model import maxtid
from .model import undo_id
from .model import z64

NEVER = (b'\0\0\0\0\0\0\xee\x01', b'zzzzzzzz')     # oids never used


def q(fn, *a, **kw):
    try:
        return ('ok', fn(*a, **kw))
    except POSKeyError:
        return ('key',)
    except Exception as e:      # noqa: B902 -- outcome is data here
        return ('err', type(e).__name__, str(e)[:100])


def boundaries(model):
    out = {z64, p64(1), maxtid}
    for t in model.txns:
        n = u64(t.tid)
        out.update((p64(n - 1), t.tid, p64(n + 1)))
    return sorted(out)


def _short(x):
    if isinstance(x, bytes) and len(x) > 24:
        return x[:10] + b'..' + x[-6:] + b'(%d)' % len(x)
    if isinstance(x, tuple):
        return tuple(_short(i) for i in x)
    return x


def ext_dict(ext_bytes):
    if not ext_bytes:
        return {}
    try:
        return pickle.loads(ext_bytes)
    except Exception:
        return {'<undecodable>': ext_bytes}


def sweep(st, model, caps, oids=None, tag='', full=True):
    """Compare storage `st` with `model`.  Revisions a pack kept only to
    serve back pointers ('shadow' records) may or may not be visible to
    queries: a mismatch counts only if it is one under both views."""
    bad = _sweep(st, model, caps, oids, tag, full)
    if bad and model.has_shadow():
        bad2 = _sweep(st, model.shadow_view(), caps, oids, tag, full)
        keys = {b[1].split(': got ')[0] for b in bad2}
        bad = [b for b in bad if b[1].split(': got ')[0] in keys]
    return bad


def _sweep(st, model, caps, oids=None, tag='', full=True):
    """Compare storage `st` with `model`.  caps: dict of capabilities
    (undo, record_iternext, last_inv, history_filter, loadserial).
    Returns a list of mismatch descriptions (empty = equal)."""
    bad = []

    def miss(what, got, want):
        name = what.split('(')[0].split(' ')[0]
        bad.append((name, '%s%s: got %r want %r' % (tag, what, _short(got),
                                                    _short(want))))

    all_oids = sorted(model.oids() if oids is None else oids)
    qoids = list(all_oids) + [o for o in NEVER]
    bounds = boundaries(model)

    for oid in qoids:
        # load / getTid
        want = model.x_load(oid)
        got = q(st.load, oid)
        if want[0] == 'ok':
            if got != ('ok', (want[1], want[2])):
                miss('load(%r)' % oid, got, want)
        elif got[0] != 'key':
            miss('load(%r)' % oid, got, want)
        want = model.x_getTid(oid)
        got = q(st.getTid, oid)
        if want[0] == 'ok':
            if got != want:
                miss('getTid(%r)' % oid, got, want)
        elif got[0] != 'key':
            # an object whose current revision is an un-creation: the
            # property is silent on getTid; the revision's own id is fine
            cur = model.current(oid)
            if cur is None or got != ('ok', cur[0]):
                miss('getTid(%r)' % oid, got, want)
        if not full:
            continue
        for b in bounds:
            want = model.x_loadBefore(oid, b)
            got = q(st.loadBefore, oid, b)
            if want[0] == 'ok':
                if got != ('ok', want[1:]):
                    miss('loadBefore(%r,%r)' % (oid, b), got, want)
            elif want[0] == 'none':
                if got != ('ok', None):
                    miss('loadBefore(%r,%r)' % (oid, b), got, want)
            elif want[0] == 'gone':
                if got not in (('ok', None), ('key',)):
                    miss('loadBefore(%r,%r)' % (oid, b), got, want)
            elif got[0] != 'key':
                miss('loadBefore(%r,%r)' % (oid, b), got, want)
            if caps.get('loadserial', True):
                want = model.x_loadSerial(oid, b)
                got = q(st.loadSerial, oid, b)
                if want[0] == 'ok':
                    if got != want:
                        miss('loadSerial(%r,%r)' % (oid, b), got, want)
                elif want[0] == 'gone':
                    if got[0] != 'key' and got != ('ok', None):
                        miss('loadSerial(%r,%r)' % (oid, b), got, want)
                elif got[0] != 'key':
                    miss('loadSerial(%r,%r)' % (oid, b), got, want)

    # lastTransaction
    got = q(st.lastTransaction)
    if got != ('ok', model.last_tid()) and not (
            model.alt_last is not None and got == ('ok', model.alt_last)):
        miss('lastTransaction()', got, ('ok', model.last_tid()))

    if not full:
        return bad

    # __len__: number of oids with any record
    if caps.get('len', True):
        got = q(len, st)
        want = len(model.oids())
        if got != ('ok', want):
            miss('len()', got, want)

    # history
    for oid in qoids:
        revs = model.revisions(oid)
        for size in (1, 2, 100):
            got = q(st.history, oid, size=size)
            if not revs:
                if got[0] != 'key':
                    miss('history(%r,%d)' % (oid, size), got, ('key',))
                continue
            if got[0] != 'ok':
                miss('history(%r,%d)' % (oid, size), got, 'a list')
                continue
            want = list(reversed(revs))[:size]
            lst = got[1]
            if len(lst) != len(want):
                miss('history(%r,%d) length' % (oid, size),
                     [d.get('tid') for d in lst], [t for t, _ in want])
                continue
            for d, (tid, r) in zip(lst, want):
                t = model.txn(tid)
                g = (d.get('tid'), d.get('user_name'), d.get('description'))
                w = (tid, t.user, t.desc)
                if g != w:
                    miss('history(%r,%d) entry' % (oid, size), g, w)
                if r.kind == 'data' and caps.get('history_size', True) \
                        and d.get('size') != len(r.data):
                    miss('history(%r,%d) size' % (oid, size), d.get('size'),
                         len(r.data))

    # iterator: full and several ranges
    tids = model.tids()
    ranges = [(None, None)]
    if tids:
        mid = tids[len(tids) // 2]
        ranges += [(mid, None), (None, mid), (mid, mid),
                   (p64(u64(mid) + 1), None), (None, p64(u64(mid) - 1)),
                   (p64(u64(tids[-1]) + 1), None), (tids[0], tids[-1])]
    for start, stop in ranges:
        want = model.iter_range(start, stop)
        try:
            it = st.iterator(start, stop)
            got = []
            for t in it:
                recs = [(r.oid, r.tid, r.data, r.data_txn) for r in t]
                ext = getattr(t, 'extension_bytes', None)
                if ext is None:
                    e = getattr(t, 'extension', {})
                else:
                    e = ext_dict(ext)
                got.append((t.tid, t.status, t.user, t.description, e, recs))
            if hasattr(it, 'close'):
                it.close()
        except Exception as e:      # noqa: B902
            miss('iterator(%r,%r)' % (start, stop),
                 ('err', type(e).__name__, str(e)[:100]), 'transactions')
            continue
        if [g[0] for g in got] != [t.tid for t in want]:
            miss('iterator(%r,%r) tids' % (start, stop),
                 [g[0] for g in got], [t.tid for t in want])
            continue
        for g, t in zip(got, want):
            gm = (g[1], g[2], g[3], g[4])
            wm = (t.status, t.user, t.desc, ext_dict(t.ext))
            if gm != wm:
                miss('iterator txn %r meta' % t.tid, gm, wm)
            wrecs = t.recs if caps.get('iter_all_recs', True) \
                else list(t.last_recs().values())
            if caps.get('iter_sorted'):
                grecs = sorted(g[5], key=lambda r: r[0])
                wrecs = sorted(wrecs, key=lambda r: r.oid)
            else:
                grecs = g[5]
            if len(grecs) != len(wrecs):
                miss('iterator txn %r record count' % t.tid,
                     [r[0] for r in grecs], [r.oid for r in wrecs])
                continue
            for gr, wr in zip(grecs, wrecs):
                if gr[0] != wr.oid or gr[1] != t.tid or gr[2] != wr.data:
                    miss('iterator txn %r record' % t.tid, gr[:3],
                         (wr.oid, t.tid, wr.data))
                if gr[3] is not None:
                    # hint: must name a revision of that oid whose resolved
                    # bytes equal the record's
                    ok = False
                    for tt in model.txns:
                        for rr in tt.recs:
                            if tt.tid == gr[3] and rr.oid == wr.oid \
                                    and rr.data == wr.data:
                                ok = True
                    if not ok and caps.get('iter_hint', True):
                        miss('iterator txn %r data_txn hint' % t.tid, gr[3],
                             'a revision of %r with equal bytes' % wr.oid)

    if caps.get('undo'):
        und = model.undoable()
        for first, last in ((0, -20), (0, 1), (1, 3), (2, -2), (0, 100),
                            (5, 2)):
            got = q(st.undoLog, first, last)
            if last < 0:
                hi = first - last
            else:
                hi = last
            want = und[first:hi] if hi > first else []
            if got[0] != 'ok':
                miss('undoLog(%d,%d)' % (first, last), got, 'a list')
                continue
            g = [(d['id'], d['user_name'], d['description'],
                  {k: v for k, v in d.items()
                   if k not in ('id', 'time', 'user_name', 'size',
                                'description')})
                 for d in got[1]]
            w = [(undo_id(t.tid), t.user, t.desc, ext_dict(t.ext))
                 for t in want]
            if g != w:
                miss('undoLog(%d,%d)' % (first, last), g, w)
        # undoInfo with a specification filter
        if und and hasattr(st, 'undoInfo'):
            t0 = und[len(und) // 2]
            spec = {'user_name': t0.user}
            got = q(st.undoInfo, 0, 100, spec)
            want = [undo_id(t.tid) for t in und if t.user == t0.user]
            if got[0] != 'ok' or [d['id'] for d in got[1]] != want:
                miss('undoInfo(spec)', got if got[0] != 'ok'
                     else [d['id'] for d in got[1]], want)

    if caps.get('record_iternext'):
        # walk current records in oid order
        seen = []
        nxt = None
        guard = 0
        cur_oids = all_oids
        while True:
            guard += 1
            if guard > len(cur_oids) + 5:
                miss('record_iternext walk', 'does not terminate', '')
                break
            try:
                oid, tid, data, nxt2 = st.record_iternext(nxt)
            except POSKeyError:
                # current revision of the next oid is an un-creation: the
                # walk cannot skip it itself; continue behind it
                key = nxt if nxt is not None else z64
                later = [o for o in cur_oids if o >= key]
                if not later:
                    break
                seen.append((later[0], None, None))
                rest = [o for o in cur_oids if o > later[0]]
                if not rest:
                    break
                nxt = rest[0]
                continue
            except ValueError:
                if cur_oids and nxt is None:
                    miss('record_iternext', 'ValueError on non-empty', '')
                break
            except Exception as e:      # noqa: B902
                miss('record_iternext', ('err', type(e).__name__,
                                         str(e)[:80]), '')
                break
            seen.append((oid, tid, data))
            if nxt2 is None:
                break
            nxt = nxt2
        want = []
        for oid in cur_oids:
            tid, r = model.current(oid)
            if r.kind == UNCREATE:
                want.append((oid, None, None))
            else:
                want.append((oid, tid, r.data))
        if seen != want and not bad:
            miss('record_iternext walk', seen, want)

    if caps.get('last_inv'):
        for count in (1, 3):
            got = q(st.lastInvalidations, count)
            tail = [t for t in model.txns if t.status != 'u'][-count:]
            want = [(t.tid, [r.oid for r in t.recs]) for t in tail]
            if got != ('ok', want):
                miss('lastInvalidations(%d)' % count, got, want)
    return bad
