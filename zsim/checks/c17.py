"""C17 -- copying or recovering a storage reproduces its full history
(DESIGN §6 C17)."""

import contextlib
import io
import random

from .. import ctx
from .. import fsparse
from .. import gen as G
from ..hist import CAPS
from ..hist import Driver
from ..hist import Violation
from ..model import Log
from ..sweep import sweep

ID = 'C17'
LEVEL = 'exploration'
RULE = ('one run = one seeded source history (undo records, deletions, '
        'restores, packed prefixes, metadata of all lengths) on '
        'FileStorage, MappingStorage or DemoStorage, then either copy: '
        'copyTransactionsFrom / BaseStorage.copy / a FileIterator range '
        'into a fresh FileStorage, compared by the full query sweep with '
        'the source model; or recover: fsrecover.recover (real code, files '
        'on the simulated disk, raw-I/O step budget) on the intact file '
        'and on variants with one damaged byte range (zeros, 0xFF, random) '
        'or a truncation at transaction/record boundaries +-9 bytes and '
        'seeded interior positions; oracle: terminates, output is '
        'well-formed, every transaction that ends before the damage is '
        'present and unchanged, every output transaction outside the '
        'damage is an unchanged input transaction, ids increase; one '
        'evaluation = one copy or one recovery; non-trivial = >= 2 source '
        'transactions; distinct = (arm, source hash, variant)')
RULE += ('  '
         'Later additions: output transactions are identified by '
         'content before they are compared by id (fsrecover re-stamps '
         'ids that are out of order); damage aimed at the records '
         'later back pointers lead to; a run that does not terminate '
         'is a violation. ')
BUDGET = {'quick': {'runs': 4000, 'wall': 300, 'chunk': 10},
          'thorough': {'runs': 300000, 'wall': 1200, 'chunk': 50}}
ASSUMPTIONS = [
    'a copy is query-identical, not byte-identical (back pointers are '
    're-derived from hints)',
    'transactions overlapping or following the damaged range may be lost; '
    'records whose data lies in the damaged range are not compared',
]
SHRINK = ['ops', ('inner', 'ops')]
SRC = '/sim/Data.fs'


def gen(seed, tier):
    r = random.Random(seed)
    if r.random() < 0.12:
        # blob contents: a blob program (C13's machine: create, rewrite,
        # undo, pack ...) on a blob-enabled FileStorage, then copied
        from . import c13
        inner = c13.gen(ctx.subseed(seed, 'blob'), tier)
        inner['kind'] = 'file'
        inner['copy'] = True
        return {'arm': 'blobcopy', 'inner': inner, 'kind': 'file',
                'ops': [], 'base_ops': [], 'how': 'copyTransactionsFrom',
                'bufsize': inner['bufsize'], 'tick': 0.37, 'tier': tier,
                'nvariants': 0}
    arm = r.choice(('copy', 'copy', 'recover', 'recover', 'recover'))
    kind = 'file'
    if arm == 'copy':
        kind = r.choice(('file', 'file', 'file', 'mapping',
                         'demo:file:file', 'demo:mapping:mapping'))
    w = {'new_oid': 0, 'wrong': 0, 'clock': 2, 'reopen': 4, 'pack': 6}
    if kind != 'file':
        w = {'new_oid': 0, 'wrong': 0, 'clock': 2}
        if kind.startswith('demo'):
            w.update({'undo': 0, 'delete': 0, 'rtxn': 0, 'reopen': 0})
    ops = G.gen_history(ctx.subseed(seed, 'src'),
                        'demo' if kind.startswith('demo') else kind,
                        n=r.randint(2, 9), weights=w)
    base_ops = []
    if kind.startswith('demo'):
        base_ops = G.gen_history(ctx.subseed(seed, 'base'),
                                 kind.split(':')[1], n=r.randint(1, 3),
                                 weights={'new_oid': 0, 'wrong': 0,
                                          'reopen': 0, 'rtxn': 0,
                                          'delete': 0, 'undo': 0})
    for lst in (ops, base_ops):
        for op in lst:
            for rec in op.get('recs', ()):
                if rec.get('size', 0) > 3000:
                    rec['size'] = 300
            m = op.get('meta')
            if m:
                for k in list(m):
                    if m[k] > 4000:
                        m[k] = 300
    return {'arm': arm, 'kind': kind, 'ops': ops, 'base_ops': base_ops,
            'how': r.choice(('copyTransactionsFrom', 'copy', 'range')),
            'bufsize': r.choice((64, 512, 8192, 65536)),
            'tick': r.choice((0.37, 45.0)), 'tier': tier,
            # fsrecover's chattiness (other code paths).  Its -p option
            # (keep the intact records of a damaged transaction, status
            # 'p') deliberately outputs changed transactions: not explored
            'verbose': r.choice((0, 0, 0, 1, 2)),
            'nvariants': 24 if tier == 'quick' else 200}


def build_source(case):
    sim = ctx.activate(ctx.Sim(case['seed'], bufsize=case['bufsize'],
                               clock={'tick': case['tick']}))
    opts = {'pack_gc': False} if case['kind'] == 'file' else None
    if case['kind'].startswith('demo'):
        opts = {'base_ops': case['base_ops']}
    d = Driver(sim, case['kind'], path=SRC, opts=opts)
    try:
        for op in case['ops']:
            d.execute(op)
    except Violation:
        pass
    return sim, d


def run_copy(case):
    from ZODB.BaseStorage import copy as bs_copy
    from ZODB.FileStorage import FileStorage
    from ZODB.FileStorage.FileStorage import FileIterator
    sim, d = build_source(case)
    viol = [('source:' + o, x) for o, x in d.viol]
    how = case['how']
    model = d.model
    label = how
    if not viol:
        dst = FileStorage('/sim/Copy.fs', create=True)
        try:
            src = d.st
            if how == 'range' and case['kind'] == 'file' and model.txns:
                r = random.Random(ctx.subseed(case['seed'], 'range'))
                tids = model.tids()
                a = r.randrange(len(tids))
                b = r.randrange(a, len(tids))
                start, stop = tids[a], tids[b]
                if r.random() < 0.3:
                    start = None
                if r.random() < 0.3:
                    stop = None
                model = Log(model.iter_range(start, stop))
                src = FileIterator(SRC, start, stop)
                label = 'range %r..%r' % (start, stop)
            elif how == 'range':
                how = 'copyTransactionsFrom'
            try:
                if how == 'copy':
                    with contextlib.redirect_stdout(io.StringIO()):
                        bs_copy(src, dst)
                else:
                    with contextlib.redirect_stdout(io.StringIO()):
                        dst.copyTransactionsFrom(src)
            except Exception as e:      # noqa: B902
                import traceback
                viol.append(('copy-raises', '%s from %s source: %s: %s | %s'
                             % (label, case['kind'], type(e).__name__,
                                str(e)[:80],
                                ' / '.join(x.strip()[:60] for x in
                                           traceback.format_exc().strip()
                                           .splitlines()[-4:-1]))))
            else:
                caps = dict(CAPS['file'])
                caps['iter_sorted'] = True
                caps['iter_all_recs'] = case['kind'] == 'file' or \
                    case['kind'].endswith(':file')
                caps['iter_hint'] = False
                if how == 'range' or label.startswith('range'):
                    # a range lacks the earlier revisions: only what the
                    # range itself defines is compared
                    pass
                bad = sweep(dst, model, caps, tag='copy (%s): ' % label)
                for name, msg in bad[:3]:
                    viol.append(('copy-differs:' + name, msg))
                dst.close()
                dst = FileStorage('/sim/Copy.fs')
                bad = sweep(dst, model, caps,
                            tag='copy (%s) reopened: ' % label)
                for name, msg in bad[:3]:
                    viol.append(('copy-differs:' + name, msg))
                b = sim.fs.read_bytes('/sim/Copy.fs')
                hist, end, problems = fsparse.to_history(b)
                if problems or end != len(b):
                    viol.append(('copy-file-structure',
                                 str(problems[:1] or 'trailing bytes')))
        finally:
            try:
                dst.close()
            except Exception:       # noqa: B902
                pass
    try:
        d.close()
    except Exception:       # noqa: B902
        pass
    stats = {'sim_time_s': sim.clock.elapsed(), 'arm:copy': 1,
             'source:' + case['kind']: 1, 'how:' + case['how']: 1,
             'source_txns': len(d.model.txns)}
    return {
        'violations': [{'oracle': o, 'detail': x} for o, x in viol[:20]],
        'stats': stats,
        'keys': ['copy|%s|%s|%s' % (case['kind'], case['how'],
                                    ','.join(d.outcomes))]
        if len(d.model.txns) >= 2 else [],
        'evals': 1,
        'sample': {'arm': 'copy', 'kind': case['kind'], 'how': label,
                   'ops': case['ops'], 'outcomes': d.outcomes},
        'digest': sim.digest(d.outcomes, viol),
    }


def variants(b, ptxns, r, n):
    """[(label, damaged bytes, first damaged offset, end of damage)]"""
    out = []
    bounds = set()
    for t in ptxns:
        bounds.update((t.pos, t.pos + 23, t.end - 8, t.end))
        for rec in t.recs:
            bounds.add(rec.pos)
            bounds.add(rec.pos + 42)
    bounds = sorted(x for x in bounds if 4 <= x <= len(b))
    cand = set()
    for x in bounds:
        for dlt in range(-9, 10):
            if 4 <= x + dlt < len(b):
                cand.add(x + dlt)
    cand = sorted(cand)
    # records that later back pointers lead to: damage that covers their
    # whole header (and more) while the pointing record stays intact
    targets = sorted({rec.back for t in ptxns for rec in t.recs
                      if getattr(rec, 'back', 0)})
    for _ in range(n):
        kind = r.choice(('trunc', 'trunc', 'zero', 'ff', 'rand', 'rand'))
        pos = r.choice(cand) if (cand and r.random() < 0.7) \
            else r.randrange(4, max(5, len(b)))
        if targets and r.random() < 0.12:
            kind = r.choice(('zero', 'zero', 'ff', 'rand'))
            pos = r.choice(targets) - r.choice((0, 0, 3, 8))
            ln = r.choice((42, 50, 64, 100))
            ln = min(ln, len(b) - pos)
            fill = {'zero': b'\0', 'ff': b'\xff'}.get(kind)
            fill = fill * ln if fill else bytes(r.randrange(256)
                                                for _ in range(ln))
            if pos >= 4 and ln > 0 and fill != b[pos:pos + ln]:
                out.append(('%s %d bytes at %d/%d' % (kind, ln, pos, len(b)),
                            b[:pos] + fill + b[pos + ln:], pos, pos + ln))
            continue
        if kind == 'trunc':
            out.append(('truncate at %d/%d' % (pos, len(b)), b[:pos], pos,
                        len(b)))
            continue
        ln = r.choice((1, 1, 2, 8, 23, 42, 100, 1000))
        ln = min(ln, len(b) - pos)
        if ln <= 0:
            continue
        if kind == 'zero':
            fill = b'\0' * ln
        elif kind == 'ff':
            fill = b'\xff' * ln
        else:
            fill = bytes(r.randrange(256) for _ in range(ln))
        if fill == b[pos:pos + ln]:
            continue
        out.append(('%s %d bytes at %d/%d' % (kind, ln, pos, len(b)),
                    b[:pos] + fill + b[pos + ln:], pos, pos + ln))
    return out


def run_recover(case):
    import ZODB.fsrecover as fr
    from ZODB.FileStorage import FileStorage
    sim, d = build_source(case)
    viol = [('source:' + o, x) for o, x in d.viol]
    model = d.model
    try:
        d.close()
    except Exception:       # noqa: B902
        pass
    stats = {'arm:recover': 1, 'source_txns': len(model.txns)}
    keys = []
    evals = 0
    labels = []
    if not viol:
        fs = sim.fs
        b = fs.read_bytes(SRC)
        ptxns, pend, problems, recs_at = fsparse.parse(b)
        orig = {}
        txn_at = {rec.pos: t for t in ptxns for rec in t.recs}
        into_multi = {}
        into_any = {}
        for t in ptxns:
            recs = []
            for rec in t.recs:
                # byte ranges a record's meaning depends on: itself and the
                # chain of back pointers
                spans = [(rec.pos, rec.pos + 50 + rec.plen)]
                x = rec
                while x.data is None and x.back:
                    x = recs_at[x.back]
                    spans.append((x.pos, x.pos + 50 + x.plen))
                    # the transaction the pointer leads into: when it
                    # loses records of this oid, restore()'s hint lookup
                    # picks another one (known finding)
                    tt = txn_at.get(x.pos)
                    if tt is not None and \
                            sum(1 for y in tt.recs if y.oid == rec.oid) > 1:
                        into_multi.setdefault((t.tid, rec.oid), []).append(
                            (tt.pos, tt.end))
                    elif tt is not None:
                        # ... or, when damage to another record of that
                        # transaction turns it into one of this oid, the
                        # damaged one
                        into_any.setdefault((t.tid, rec.oid), []).append(
                            (tt.pos, tt.end))
                try:
                    data = fsparse.resolve(rec, recs_at)
                except fsparse.Bad:
                    data = b'?'
                recs.append((rec.oid, data, spans))
            orig[t.tid] = (t, recs)
        def walks_to_end(damaged, t):
            """Do the data records of transaction t still add up in the
            damaged file (then fsrecover cannot see the damage and copies
            what it finds)?"""
            import struct
            pos = t.recs[0].pos if t.recs else t.end - 8
            tend = t.end - 8
            while pos < tend:
                h = damaged[pos:pos + 42]
                if len(h) < 42:
                    return False
                _o, _t, _prev, tloc, vlen, plen = struct.unpack(
                    '>8s8sQQHQ', h)
                dlen = 42 + (plen or 8)
                if vlen or tloc != t.pos or pos + dlen > tend:
                    return False
                pos += dlen
            return pos == tend

        def n_of(damaged, tpos, oid):
            """Records of `oid` the transaction at tpos holds in the
            damaged file (record positions as in the original)."""
            tt = [t for t in ptxns if t.pos == tpos]
            if not tt:
                return 0
            return sum(1 for y in tt[0].recs
                       if bytes(damaged[y.pos:y.pos + 8]) == oid)
        r = random.Random(ctx.subseed(case['seed'], 'damage'))
        vs = [('intact', b, len(b) + 1, len(b) + 1)] + \
            variants(b, ptxns, r, case['nvariants'])
        import zlib
        hh = zlib.crc32(b)
        for label, data, dstart, dend in vs:
            evals += 1
            labels.append(label)
            fs.write_bytes('/sim/In.fs', data)
            for p in list(fs.names):
                if p.startswith('/sim/Out.fs'):
                    fs.unlink_quiet(p)
            sim.io_budget = 32 * len(data) + 20000
            sim.io_steps = 0
            out = io.StringIO()
            try:
                with contextlib.redirect_stdout(out), \
                        contextlib.redirect_stderr(out):
                    fr.recover('/sim/In.fs', '/sim/Out.fs', force=True,
                               verbose=case.get('verbose', 0))
            except ctx.StepCap:
                viol.append(('recover-does-not-terminate', '%s: more than '
                             '%d raw I/O operations on a %d-byte file'
                             % (label, sim.io_budget, len(data))))
                sim.io_budget = None
                _close_leftovers(fs)
                continue
            except SystemExit as e:
                viol.append(('recover-exits', '%s: recover() called '
                             'sys.exit(%r)' % (label, e.code)))
                sim.io_budget = None
                continue
            except Exception as e:      # noqa: B902
                import traceback
                viol.append(('recover-raises', '%s: %s: %s | %s' % (
                    label, type(e).__name__, str(e)[:80],
                    ' / '.join(x.strip()[:60] for x in
                               traceback.format_exc().strip()
                               .splitlines()[-4:-1]))))
                sim.io_budget = None
                _close_leftovers(fs)
                continue
            finally:
                sim.io_budget = None
            stats['recoveries'] = stats.get('recoveries', 0) + 1
            keys.append('r|%x|%s' % (hh, label))
            ob = fs.read_bytes('/sim/Out.fs')
            try:
                otx, oend, oprob, orecs = fsparse.parse(ob)
            except fsparse.Bad as e:
                viol.append(('recover-output-malformed', '%s: %s'
                             % (label, e)))
                continue
            # (a record id that differs from its transaction's id is a
            # faithful copy of a damaged header, not a malformed output)
            oprob = [x for x in oprob if 'tid differs' not in x
                     and 'tid not increasing' not in x]
            if oprob or oend != len(ob):
                viol.append(('recover-output-malformed', '%s: %s' % (
                    label, oprob[:1] or 'trailing bytes')))
            got = {}
            last = b''
            for t in otx:
                if t.tid <= last:
                    viol.append(('recover-order', '%s: output ids do not '
                                 'increase' % label))
                last = t.tid
                rr = []
                for rec in t.recs:
                    try:
                        rr.append((rec.oid, fsparse.resolve(rec, orecs)))
                    except fsparse.Bad:
                        rr.append((rec.oid, b'?'))
                got[t.tid] = (t, rr)
            # (c) a transaction the damage lies in is left out (fsrecover
            # is run without -p: "transactions with any bad data are
            # skipped") or copied whole (damage it cannot see); it does not
            # come out with fewer records under its own id as if complete
            for tid, (t, recs) in orig.items():
                g = got.get(tid)
                if g is None or t.status == 'u':
                    continue
                if t.pos < dend and t.end > dstart and t.pos + 23 <= dstart \
                        and g[0].status == t.status \
                        and len(g[1]) < len(recs) \
                        and not walks_to_end(data, t):
                    viol.append(('recover-outputs-partial-transaction',
                                 '%s: transaction %r is damaged behind its '
                                 'header; it is output with %d of its %d '
                                 'records and status %r'
                                 % (label, tid, len(g[1]), len(recs),
                                    g[0].status)))
                    break
            # (a) everything that ends before the damage is present
            for tid, (t, recs) in orig.items():
                if t.status == 'u':
                    continue
                if t.end <= dstart:
                    g = got.get(tid)
                    if g is None:
                        viol.append(('recover-loses-intact-transaction',
                                     '%s: transaction %r at %d..%d ends '
                                     'before the damage but is missing'
                                     % (label, tid, t.pos, t.end)))
                        break
            # (b) output transactions outside the damage are unchanged
            restamped = 'out of order' in out.getvalue()
            by_content = {}
            for otid, (t, recs) in orig.items():
                by_content.setdefault(
                    (t.status, t.user, t.desc, t.ext,
                     tuple((oid, data) for oid, data, _ in recs)),
                    []).append((otid, t))
            for tid, (gt, grecs) in got.items():
                o = orig.get(tid)
                if True:
                    # fsrecover gives transactions whose id is not later
                    # than the one before a new, later id.  When damage
                    # changed the *id field* of a header into a later
                    # value, the undamaged transactions behind it are
                    # re-stamped -- and a new id can be the id of another
                    # input transaction.  Identify an output transaction
                    # by what it holds before comparing by id.
                    same = o is not None and \
                        (gt.status, gt.user, gt.desc, gt.ext) == \
                        (o[0].status, o[0].user, o[0].desc, o[0].ext) and \
                        list(grecs) == [(a, b_) for a, b_, _ in o[1]]
                    if not same:
                        cands = by_content.get(
                            (gt.status, gt.user, gt.desc, gt.ext,
                             tuple(grecs)), [])
                        if any(t.pos < dend and t.pos + 8 > dstart
                               for _, t in cands):
                            # the faithful copy of a header whose id
                            # field is damaged
                            continue
                        moved = [otid for otid, t in cands if otid != tid
                                 and (t.end <= dstart or t.pos >= dend)]
                        if moved and restamped:
                            viol.append((
                                'recover-changes-transaction/restamped-'
                                'after-damaged-id', '%s: input transaction '
                                '%r (not touched by the damage) is output '
                                'with the id %r' % (label, moved[0], tid)))
                            continue
                if o is None:
                    # a transaction the original does not have: only
                    # possible if its header lies in the damaged range
                    continue
                t, recs = o
                if not (t.end <= dstart or t.pos >= dend):
                    continue
                if (gt.status, gt.user, gt.desc, gt.ext) != \
                        (t.status, t.user, t.desc, t.ext):
                    viol.append(('recover-changes-transaction', '%s: '
                                 'metadata of %r changed' % (label, tid)))
                    continue
                clean = [(oid, data) for oid, data, spans in recs
                         if all(e <= dstart or s >= dend for s, e in spans)]
                gset = list(grecs)
                if len(grecs) != len(recs):
                    viol.append(('recover-changes-transaction', '%s: %r '
                                 'has %d records, originally %d'
                                 % (label, tid, len(grecs), len(recs))))
                    continue
                for x in clean:
                    if x not in gset:
                        fam = ''
                        if any(a < dend and e > dstart for a, e in
                               into_multi.get((tid, x[0]), ())):
                            fam = '/pointer-into-damaged-multi-record-txn'
                        elif any(a < dend and e > dstart
                                 and n_of(data, a, x[0]) >= 2 for a, e in
                                 into_any.get((tid, x[0]), ())):
                            # (the damage gave that transaction a second
                            # record of this object)
                            fam = '/pointer-into-damaged-txn'
                        viol.append(('recover-changes-transaction' + fam,
                                     '%s: record %r of %r changed'
                                     % (label, x[0], tid)))
                        break
            if label == 'intact':
                # the recovered storage answers every query like the source
                try:
                    st = FileStorage('/sim/Out.fs')
                    caps = dict(CAPS['file'])
                    caps['iter_hint'] = False
                    bad = sweep(st, model, caps, tag='recovered intact: ')
                    for name, msg in bad[:3]:
                        viol.append(('recover-intact-differs:' + name, msg))
                    st.close()
                except Exception as e:      # noqa: B902
                    viol.append(('recover-intact-differs:open',
                                 '%s: %s' % (type(e).__name__, str(e)[:80])))
            if len(viol) >= 12:
                break
    stats['sim_time_s'] = sim.clock.elapsed()
    return {
        'violations': [{'oracle': o, 'detail': x} for o, x in viol[:20]],
        'stats': stats, 'keys': keys if len(model.txns) >= 2 else [],
        'evals': max(evals, 1),
        'sample': {'arm': 'recover', 'ops': case['ops'],
                   'variants': labels[:12]},
        'digest': sim.digest(repr(labels), viol),
    }


def _close_leftovers(fs):
    """fsrecover was interrupted: drop the lock its output storage held."""
    fs.locks.clear()


def run_blobcopy(case):
    from . import c13
    inner = dict(case['inner'])
    inner['seed'] = case['seed']
    res = c13.run(inner)
    # violations of the blob program itself belong to C13; the copy's are
    # C17's
    res['violations'] = [v for v in res['violations']
                         if v['oracle'].startswith('blob-copy')]
    res['stats'] = dict(res['stats'])
    res['stats']['arm:blobcopy'] = 1
    res['keys'] = ['blobcopy|' + k for k in res['keys']]
    res['sample'] = {'arm': 'blobcopy', 'ops': case['inner']['ops']}
    return res


def run(case):
    if case['arm'] == 'blobcopy':
        return run_blobcopy(case)
    if case['arm'] == 'copy':
        return run_copy(case)
    return run_recover(case)


LEVEL_TEXT = ('seeded search over source histories; the copy arm runs the '
              'real copy paths between simulated storages and compares '
              'query by query; the recover arm runs fsrecover on the intact '
              'data file and on seeded damaged variants under a raw-I/O '
              'step budget (termination) and compares the output, parsed '
              'independently, with the input.')
LEVEL_NOTE = ('blob contents: a blobcopy arm runs C13\'s blob programs and '
              'compares every blob revision\'s file in the copy; damage = one byte range '
              'or one truncation per variant, 24 variants per history in '
              'quick (200 in thorough); trusted: fsparse, reference model')
TECHNIQUE = ('deterministic simulation: seeded histories, injected damage '
             '(overwritten ranges, truncation) on the simulated disk, '
             'raw-I/O step budget, independent parser comparison')
