"""Install the simulator's seams by rebinding module globals of the real ZODB
code (no source edits).  Inert while no Sim is active."""

import logging
import os
import sys

from . import ctx
from . import sched
from . import simclock
from . import simfs

_installed = False
OS = simfs.OsProxy()
TIME = simclock.FakeTime()


class _DemoRandom:
    """Stands in for module `random` inside ZODB.DemoStorage."""

    def __getattr__(self, name):
        import random
        return getattr(random, name)

    def randint(self, a, b):
        sim = ctx.CUR
        if sim is None:
            import random
            return random.randint(a, b)
        hook = getattr(sim, 'demo_randint', None)
        if hook is not None:
            return hook(a, b)
        return sim.demo_random.randint(a, b)


def repo_src():
    return os.environ.get('ZSIM_REPO_SRC', '/repo/src')


def install():
    global _installed
    if _installed:
        return
    src = os.path.realpath(repo_src())
    if src not in sys.path[:1]:
        sys.path.insert(0, src)
    import ZODB
    zf = os.path.realpath(ZODB.__file__)
    if not zf.startswith(src + os.sep):
        raise RuntimeError('ZODB imported from %s, expected under %s'
                           % (zf, src))
    import ZODB.ActivityMonitor
    import ZODB.BaseStorage
    import ZODB.blob
    import ZODB.Connection
    import ZODB.DB
    import ZODB.DemoStorage
    import ZODB.ExportImport
    import ZODB.FileStorage
    import ZODB.FileStorage.fspack
    import ZODB.fsIndex
    import ZODB.fsrecover
    import ZODB.MappingStorage
    import ZODB.mvccadapter
    import ZODB.scripts.repozo
    import ZODB.utils

    fsmod = sys.modules['ZODB.FileStorage.FileStorage']
    fsmod.open = simfs.sim_open
    fsmod.os = OS
    fsmod.fsync = simfs.sim_fsync
    fsmod.LockFile = simfs.SimLockFile
    fsmod.time = TIME

    m = sys.modules['ZODB.FileStorage.fspack']
    m.open = simfs.sim_open
    m.os = OS

    m = sys.modules['ZODB.fsIndex']
    m.open = simfs.sim_open

    m = sys.modules['ZODB.fsrecover']
    m.open = simfs.sim_open
    m.os = OS
    m.time = TIME

    m = sys.modules['ZODB.blob']
    m.open = simfs.sim_open
    m.os = OS

    m = sys.modules['ZODB.Connection']
    m.open = simfs.sim_open
    m.os = OS
    m.time = TIME

    m = sys.modules['ZODB.ExportImport']
    m.open = simfs.sim_open

    m = sys.modules['ZODB.scripts.repozo']
    m.open = simfs.sim_open
    m.os = OS
    m.time = TIME

    for name in ('ZODB.BaseStorage', 'ZODB.MappingStorage', 'ZODB.DB',
                 'ZODB.ActivityMonitor'):
        sys.modules[name].time = TIME

    u = sys.modules['ZODB.utils']
    u.time = TIME
    u.Lock = sched.SimLock
    u.RLock = sched.SimRLock
    u.Condition = sched.SimCondition
    sys.modules['ZODB.mvccadapter'].Lock = sched.SimLock
    sys.modules['ZODB.DB'].resource_counter_lock = sched.SimLock()

    sys.modules['ZODB.DemoStorage'].random = _DemoRandom()

    logging.disable(logging.CRITICAL)
    _installed = True


def reset_process_globals():
    """Make a run in a warm worker equal a run in a fresh interpreter."""
    import ZODB.ConflictResolution as CR
    import ZODB.Connection as C
    CR._class_cache.clear()
    CR._unresolvable.clear()
    C.global_reset_counter = 0
    import ZODB.DB as D
    D.resource_counter = 0
    sched.reset_ids()
    try:
        import transaction
        transaction.manager.clearSynchs()
    except Exception:
        pass
