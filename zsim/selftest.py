"""Self tests: determinism (same seed => same digest, in one process, in a
fresh interpreter and under other PYTHONHASHSEED values) and a smoke test
used as MANIFEST.setup_cmd."""

import json
import os
import subprocess
import sys

from . import runner
from . import seams


def digests(cid, n, verif_seed=0, tier='quick'):
    mod = runner.load_check(cid)
    out = []
    for i in range(n):
        seed = runner.run_seed(verif_seed, cid, i)
        case = mod.gen(seed, tier)
        case['seed'] = seed
        case['check'] = cid
        res = runner.run_one(mod, case)
        out.append(res.get('digest'))
    return out


def available():
    out = []
    for cid in runner.CHECKS:
        try:
            runner.load_check(cid)
        except ImportError:
            continue
        out.append(cid)
    return out


def determinism(checks, n):
    seams.install()
    bad = 0
    for cid in checks:
        a = digests(cid, n)
        b = digests(cid, n)
        same = a == b
        if None in a:
            print('selftest: %s produces no digest' % cid)
            bad += 1
        fresh_ok = True
        for hs in ('1', 'random'):
            env = dict(os.environ, ZSIM_HASHSEED=hs)
            p = subprocess.run(
                [os.path.join(runner.ROOT, 'bin', 'zsim'), 'selftest',
                 'digests', '--checks', cid, '--seeds', str(n)],
                env=env, stdout=subprocess.PIPE, stderr=subprocess.PIPE,
                timeout=3600)
            try:
                c = json.loads(p.stdout.decode().strip().splitlines()[-1])
            except Exception:
                print(p.stdout.decode()[-500:], p.stderr.decode()[-1500:])
                c = None
            if c != a:
                fresh_ok = False
                if c is not None:
                    diff = [i for i in range(min(len(a), len(c)))
                            if a[i] != c[i]]
                    print('selftest: %s differs under PYTHONHASHSEED=%s at '
                          'run indices %s' % (cid, hs, diff[:10]))
        print('selftest determinism %s: %d seeds, twice in-process: %s, '
              'fresh interpreters under other hash seeds: %s'
              % (cid, n, 'same' if same else 'DIFFERENT',
                 'same' if fresh_ok else 'DIFFERENT'))
        if not same:
            diff = [i for i in range(n) if a[i] != b[i]]
            print('  in-process differences at run indices', diff[:10])
        if not (same and fresh_ok):
            bad += 1
    return 1 if bad else 0


def main(what, checks='', seeds=40):
    given = [c.upper() for c in checks.split(',') if c]
    cids = given or available()
    if what == 'digests':
        seams.install()
        print(json.dumps(digests(cids[0], seeds)))
        return 0
    if what == 'smoke':
        return determinism(cids, 6)
    if what == 'determinism':
        return determinism(cids, seeds)
    if what == 'mutants':
        from . import mutants
        return mutants.main(given)
    return 2
