"""C18 -- repozo recover reproduces the backed-up data file byte for byte
(DESIGN §6 C18)."""

import contextlib
import io
import os
import random
import shutil
import time as _time

from ZODB.Connection import TransactionMetaData
from ZODB.utils import p64
from ZODB.utils import z64

from .. import ctx
from .. import fsparse
from .. import gen as G
from ..hist import CAPS
from ..hist import Driver
from ..hist import Violation
from ..model import Log
from ..sweep import sweep

ID = 'C18'
LEVEL = 'exploration'
RULE = ('one run = one seeded interleaving of commits, packs, clock steps '
        'and backups (real repozo.main, options full / quick / gzip / '
        'kill-old) of a live FileStorage on the simulated disk, including '
        'backups taken while a transaction is parked after begin / stores '
        '/ vote and while the data file is as of an arbitrary low-level '
        'write of an in-flight commit (taken from the op log); the '
        'repository lives on a scratch tmpfs; then recover for every date '
        'class (none, each backup\'s date, between, before the first) with '
        'and without --with-verify, verify full and quick, and '
        'single-file damages of the repository (remove, truncate, flip a '
        'byte) followed by verify; oracle: recovered bytes == the '
        'committed prefix of the data file at the last backup not later '
        'than the date that the repository still holds, the recovered '
        'file with the restored index opens to the model state of that '
        'moment and holds only complete transactions, verify passes on the '
        'intact repository and fails for every missing file, size change '
        '(quick and full) and content change (full); one evaluation = one '
        'backup, recover or verify; non-trivial = >= 2 backups; distinct = '
        '(options, op trace)')
RULE += ('  '
         'Later addition: backup processes killed while reading or '
         'copying (after a seeded number of bytes); nothing of a '
         'killed backup counts, recover and verify go on answering '
         'from the completed ones. ')
BUDGET = {'quick': {'runs': 3000, 'wall': 300, 'chunk': 5},
          'thorough': {'runs': 300000, 'wall': 1200, 'chunk': 50}}
ASSUMPTIONS = [
    'quick mode is specified to trust sizes (and the checksum of the last '
    'increment) only: a quick incremental taken after a pack rewrote bytes '
    'in front of the last increment without changing what quick mode '
    'looks at recovers to the old bytes there, and is accepted',
    'two backups within one simulated second collide by design '
    '(WouldOverwriteFiles): the clock is stepped >= 1 s between backups',
    'of the finer interleavings between repozo and the live process one '
    'is explored: a pack that swaps the data file between repozo\'s scan '
    'and its copy (repozo must give up); a pack between its checksum '
    'comparison and its scan is not',
]
SHRINK = ['ops']
SRC = '/sim/Data.fs'
_n = [0]


def gen_regrow(r, tier):
    """Pack, then equal-sized commits that grow the file back to a size
    it had at an earlier backup: only the checksum tells a quick backup
    that the file is a different one."""
    size = r.choice((0, 10, 200, 1000))
    k = r.randint(1, 3)

    def commits(n):
        return [{'op': 'txn', 'recs': [{'cls': 'Cell', 'o': 0,
                                        'size': size}]}
                for _ in range(n)]
    ops = commits(1)
    for _ in range(r.randint(2, 4)):
        ops.append({'op': 'pack', 'where': 'after_all', 'at': 0})
        ops.extend(commits(k))
        if r.random() < 0.2:
            ops.extend(commits(1))
        ops.append({'op': 'backup', 'full': False,
                    'quick': r.random() < 0.85, 'gzip': r.random() < 0.2,
                    'killold': False})
        if r.random() < 0.3:
            ops.append({'op': 'clockstep', 's': r.choice((1, 61))})
    ops.append({'op': 'backup', 'full': False, 'quick': r.random() < 0.5,
                'gzip': False, 'killold': False})
    return {'ops': ops, 'bufsize': r.choice((64, 8192, 65536)),
            'chunk': r.choice((7, 1024, 16384)), 'tier': tier}


def gen(seed, tier):
    r = random.Random(seed)
    if r.random() < 0.1:
        return gen_regrow(r, tier)
    ops = []
    hist = G.gen_history(ctx.subseed(seed, 'h'), 'file', n=30,
                         weights={'new_oid': 0, 'wrong': 0, 'clock': 0,
                                  'reopen': 2, 'rtxn': 2, 'delete': 2,
                                  'undo': 8})
    hi = 0
    for _ in range(r.randint(4, 16)):
        x = r.random()
        if x < 0.45:
            op = hist[hi % len(hist)]
            hi += 1
            for rec in op.get('recs', ()):
                rec['size'] = min(rec.get('size', 0), 3000)
                rec.pop('refs', None)
            m = op.get('meta')
            if m:
                for k in list(m):
                    m[k] = min(m[k], 300)
            ops.append(op)
        elif x < 0.52:
            ops.append({'op': 'pack', 'where': r.choice(('after_all', 'at',
                                                         'between')),
                        'at': r.randrange(8)})
        elif x < 0.88:
            b = {'op': 'backup', 'full': r.random() < 0.2,
                 'quick': r.random() < 0.35, 'gzip': r.random() < 0.3,
                 'killold': r.random() < 0.2}
            y = r.random()
            if y < 0.25:
                b['parked'] = r.choice(('begin', 'stores', 'vote'))
            elif y < 0.5:
                b['cut'] = r.random()
            elif y < 0.6:
                # the backup process is killed while it reads / copies
                b['dies'] = r.random()
            elif y < 0.68:
                # the live process packs between repozo's scan and copy
                b['pack_before_copy'] = True
            ops.append(b)
        else:
            ops.append({'op': 'clockstep', 's': r.choice((1, 2, 61, 3600))})
    ops.append({'op': 'backup', 'full': False, 'quick': False,
                'gzip': False, 'killold': False})
    return {'ops': ops, 'bufsize': r.choice((64, 8192, 65536)),
            'chunk': r.choice((7, 1024, 16384)), 'tier': tier}


def date_str(t):
    return '%04d-%02d-%02d-%02d-%02d-%02d' % _time.gmtime(t)[:6]


class Killed(BaseException):
    """The repozo process is killed (not an Exception: nothing in repozo
    may handle it)."""


class Repo:

    def __init__(self, case, sim, d):
        self.case = case
        self.sim = sim
        self.d = d
        _n[0] += 1
        self.scratch = '/dev/shm/zsim-%d/r%d' % (os.getpid(), _n[0])
        shutil.rmtree(self.scratch, ignore_errors=True)
        self.repo = self.scratch + '/repo'
        os.makedirs(self.repo)
        self.viol = []
        self.evals = 0
        self.backups = []       # dict(date, bytes, model, opts)
        self.die_after = None
        self.pack_before_copy = None
        self.rewritten_since_check = False
        self.trace = []

    def flag(self, o, x):
        if len(self.viol) < 20:
            self.viol.append((o, x))

    def repozo(self, argv):
        import ZODB.scripts.repozo as rz
        self.evals += 1
        out = io.StringIO()
        rz.READCHUNK = self.case['chunk']
        real_dofile = rz.dofile
        if self.die_after is not None:
            left = [self.die_after]

            def dofile(func, fp, n=None):
                def func2(data):
                    if left[0] < len(data):
                        func(data[:left[0]])
                        raise Killed()
                    left[0] -= len(data)
                    func(data)
                return real_dofile(func2, fp, n)
            rz.dofile = dofile
        real_copyfile = rz.copyfile
        if self.pack_before_copy:
            # the live process packs between repozo's scan of the data file
            # and its copy
            hook = self.pack_before_copy

            def copyfile(options, dst, start, n):
                hook()
                return real_copyfile(options, dst, start, n)
            rz.copyfile = copyfile
        try:
            with contextlib.redirect_stdout(out), \
                    contextlib.redirect_stderr(out):
                rz.main(argv)
            return ('ok', None)
        except Killed as e:
            self.reap(e.__traceback__)
            return ('killed', None)
        except SystemExit as e:
            if e.code in (0, None):
                return ('ok', None)
            return ('exit', str(e.code)[:120])
        except Exception as e:      # noqa: B902
            return ('raised', '%s: %s' % (type(e).__name__, str(e)[:120]))
        finally:
            rz.dofile = real_dofile
            rz.copyfile = real_copyfile

    def reap(self, tb):
        """The killed process's open files: what their buffers hold is
        lost, nothing is written any more (a file object that lives on in
        this process would flush into its file later -- possibly after the
        next backup renamed it into place)."""
        import gzip
        files = []
        while tb is not None:
            for v in list(tb.tb_frame.f_locals.values()):
                if isinstance(v, gzip.GzipFile):
                    files.extend([v, v.fileobj, v.myfileobj])
                elif isinstance(v, io.IOBase) or hasattr(v, 'fileno'):
                    files.append(v)
            tb = tb.tb_next
        devnull = os.open(os.devnull, os.O_RDWR)
        try:
            for f in files:
                try:
                    fd = f.fileno()
                except Exception:       # noqa: B902
                    continue
                if isinstance(fd, int) and fd not in self.sim.fs.fds \
                        and fd > 2 and not getattr(f, 'closed', False) \
                        and type(f).__module__ in ('_io', 'io', 'gzip'):
                    try:
                        os.dup2(devnull, fd)
                    except OSError:
                        pass
            for f in files:
                try:
                    f.close()
                except Exception:       # noqa: B902
                    pass
        finally:
            os.close(devnull)

    # -- backup -----------------------------------------------------------

    def backup(self, op):
        d = self.d
        sim = self.sim
        st = d.st
        fs = sim.fs
        # at least one second since the previous backup
        if self.backups and date_str(sim.clock.now) <= \
                self.backups[-1]['date']:
            sim.clock.advance(1.5)
        parked = None
        restore = None
        committed = bytes(fs.names[SRC].data[:st._pos])
        model = Log(d.model.txns)
        if op.get('parked') or 'cut' in op:
            phase = op.get('parked', 'vote')
            t = TransactionMetaData(b'parked', b'', {})
            n0 = len(fs.log)
            st.tpc_begin(t)
            if phase != 'begin' or 'cut' in op:
                st.store(p64(0x7001), z64, b'parked-data-' * 40, '', t)
                cur = d.model.current(p64(1))
                st.store(p64(1), cur[0] if cur else z64,
                         b'parked-existing-' * 30, '', t)
            if phase == 'vote' or 'cut' in op:
                st.tpc_vote(t)
            parked = t
            if 'cut' in op:
                # the data file as of an arbitrary low-level write of the
                # in-flight commit
                ino = fs.names[SRC]
                writes = [o for o in fs.log[n0:]
                          if o[0] == 'write' and o[1] == ino.ino]
                full = bytes(ino.data)
                k = int(op['cut'] * (len(writes) + 1))
                img = bytearray(committed)
                for o in writes[:k]:
                    off, b = o[2], o[3]
                    if off > len(img):
                        img.extend(b'\0' * (off - len(img)))
                    img[off:off + len(b)] = b
                if k < len(writes) and writes[k][3]:
                    o = writes[k]
                    part = o[3][:max(1, len(o[3]) // 2)]
                    off = o[2]
                    if off > len(img):
                        img.extend(b'\0' * (off - len(img)))
                    img[off:off + len(part)] = part
                ino.data[:] = img
                restore = full
        argv = ['-B', '-r', self.repo, '-f', SRC]
        for flag_, key in (('-F', 'full'), ('-Q', 'quick'), ('-z', 'gzip'),
                           ('-k', 'killold')):
            if op.get(key):
                argv.append(flag_)
        date = date_str(sim.clock.now)
        before = set(os.listdir(self.repo))
        if 'dies' in op:
            # (an incremental backup reads the file twice: checksum, copy)
            self.die_after = int(op['dies'] * 2 * len(committed))
        packed = []
        if op.get('pack_before_copy') and parked is None:
            def hook():
                size0 = len(fs.names[SRC].data)
                d.execute({'op': 'pack', 'where': 'after_all', 'at': 0})
                packed.append(len(fs.names[SRC].data) != size0)
            self.pack_before_copy = hook
        try:
            res = self.repozo(argv)
        finally:
            self.die_after = None
            self.pack_before_copy = None
        if packed and packed[0] and res[0] == 'raised' and \
                res[1].startswith('AssertionError'):
            # the data file shrank under the copy: repozo gives up, nothing
            # of this backup counts
            self.trace.append('backup-gave-up-after-pack:')
            if restore is not None:
                fs.names[SRC].data[:] = restore
            sim.clock.advance(1.5)
            return
        if restore is not None:
            fs.names[SRC].data[:] = restore
        if parked is not None:
            st.tpc_abort(parked)
        if res[0] == 'killed':
            # nothing of this backup counts: recover and verify go on
            # answering from the backups completed before
            self.trace.append('backup-killed:')
            sim.clock.advance(1.5)
            return
        if res[0] != 'ok':
            self.flag('backup-fails', 'backup %r: %s %s' % (argv[4:],
                                                           res[0], res[1]))
            return
        new = sorted(set(os.listdir(self.repo)) - before)
        data_new = [f for f in new if f.endswith(('.fs', '.fsz', '.deltafs',
                                                   '.deltafsz'))]
        self.trace.append('backup:%s%s' % (
            ''.join(k[0] for k in ('full', 'quick', 'gzip', 'killold')
                    if op.get(k)),
            ':' + (op.get('parked') or ('cut' if 'cut' in op else ''))))
        if not data_new:
            # "No changes, nothing to do"
            if self.backups and self.backups[-1]['bytes'] == committed:
                return
            if op.get('quick') and self.rewritten_since_check and \
                    self.backups and \
                    len(self.backups[-1]['bytes']) == len(committed):
                # quick mode looks at sizes and at the last increment only
                # (stated assumption): a pack that rewrote earlier bytes
                # and left the size as it was is invisible to it
                self.trace.append('quick-blind-after-pack:')
                return
            if not self.backups:
                self.flag('backup-missing', 'first backup wrote no file')
                return
            # quick mode may legitimately miss nothing else
            self.flag('backup-missing', 'the data file changed since the '
                      'last backup but backup %r wrote nothing'
                      % (argv[4:],))
            return
        real_date = data_new[0].split('.')[0]
        full = data_new[0].endswith(('.fs', '.fsz'))
        # a quick incremental on top of a file a pack has rewritten since
        # the whole prefix was last compared (or on top of such a backup):
        # quick mode cannot see what changed in front of the last increment
        blind = bool(op.get('quick')) and not full and (
            self.rewritten_since_check or
            bool(self.backups and self.backups[-1].get('blind')))
        if full or not op.get('quick'):
            self.rewritten_since_check = False
        if blind:
            self.trace.append('quick-blind-after-pack:')
        self.backups.append({'date': real_date, 'bytes': committed,
                             'model': model, 'file': data_new[0],
                             'full': full, 'blind': blind})
        if op.get('killold') and self.backups[-1]['full']:
            # only the newest full backup (and what follows) remains
            self.backups = self.backups[-1:]

    # -- recover / verify ------------------------------------------------------

    def expected_for(self, date):
        """The last backup not later than `date` that the repository still
        holds (None = nothing)."""
        cand = [b for b in self.backups
                if date is None or b['date'] <= date]
        return cand[-1] if cand else None

    def recover(self, date, withverify):
        out = self.scratch + '/Recovered.fs'
        for p in (out, out + '.index', out + '.part', out + '.lock',
                  out + '.tmp'):
            if os.path.exists(p):
                os.remove(p)
        argv = ['-R', '-r', self.repo, '-o', out]
        if date is not None:
            argv += ['-D', date]
        if withverify:
            argv.append('-w')
        res = self.repozo(argv)
        want = self.expected_for(date)
        label = 'recover date=%s%s' % (date, ' -w' if withverify else '')
        if want is None:
            if res[0] == 'ok':
                self.flag('recover-from-nothing', '%s succeeded although no '
                          'backup is that old' % label)
            return
        if res[0] != 'ok':
            self.flag('recover-fails', '%s: %s %s' % (label, res[0], res[1]))
            return
        with open(out, 'rb') as f:
            got = f.read()
        if got != want['bytes'] and want.get('blind') and \
                len(got) == len(want['bytes']):
            # (stated assumption about quick mode, see backup())
            return
        if got != want['bytes']:
            n = 0
            m = min(len(got), len(want['bytes']))
            while n < m and got[n] == want['bytes'][n]:
                n += 1
            self.flag('recover-bytes', '%s: recovered %d bytes, the '
                      'committed data file at backup %s had %d bytes; '
                      'first difference at %d' % (label, len(got),
                                                  want['date'],
                                                  len(want['bytes']), n))
            return
        hist, end, problems = fsparse.to_history(got)
        if end != len(got):
            self.flag('backup-incomplete-transaction', '%s: the recovered '
                      'file ends in an incomplete transaction' % label)
        if not os.path.exists(out + '.index'):
            self.flag('recover-no-index', '%s: no index restored' % label)
        # opens (with the restored index) to the model state of that moment
        from ZODB.FileStorage import FileStorage
        try:
            st = FileStorage(out)
            caps = dict(CAPS['file'])
            bad = sweep(st, want['model'], caps, tag=label + ': ')
            for name, msg in bad[:2]:
                self.flag('recovered-state:' + name, msg)
            if not getattr(st, '_used_index', 0) and want['model'].txns:
                self.sim.probe('restored index ignored')
            st.close()
        except Exception as e:      # noqa: B902
            self.flag('recovered-open-raises', '%s: %s: %s' % (
                label, type(e).__name__, str(e)[:80]))

    def verify(self, quick):
        argv = ['-V', '-r', self.repo] + (['-Q'] if quick else [])
        return self.repozo(argv)

    def damages(self, r):
        """Single-file damages; returns list of (label, undo function,
        must_fail_full, must_fail_quick)."""
        out = []
        # only files of the current chain (since the last full backup) are
        # mentioned in the newest .dat
        chain = []
        for b in self.backups:
            if b['full']:
                chain = [b]
            else:
                chain.append(b)
        for b in chain:
            path = os.path.join(self.repo, b['file'])
            if not os.path.exists(path):
                continue
            with open(path, 'rb') as f:
                orig = f.read()

            def put(data, path=path):
                with open(path, 'wb') as f:
                    f.write(data)

            def undo(path=path, orig=orig):
                with open(path, 'wb') as f:
                    f.write(orig)
            out.append(('remove ' + b['file'],
                        lambda path=path: os.remove(path), undo, True, True))
            if len(orig) > 1:
                k = r.randrange(1, len(orig))
                out.append(('truncate %s at %d' % (b['file'], k),
                            lambda k=k, put=put, orig=orig: put(orig[:k]),
                            undo, True, True))
                k = r.randrange(len(orig))
                flipped = orig[:k] + bytes([orig[k] ^ 0x5a]) + orig[k + 1:]
                gz = b['file'].endswith('z')
                out.append(('flip byte %d of %s' % (k, b['file']),
                            lambda put=put, flipped=flipped: put(flipped),
                            undo, True if not gz else None, None))
                out.append(('append to ' + b['file'],
                            lambda put=put, orig=orig: put(orig + b'x'),
                            undo, True if not gz else None,
                            True if not gz else None))
        return out

    def cleanup(self):
        shutil.rmtree(self.scratch, ignore_errors=True)
        try:
            os.rmdir(os.path.dirname(self.scratch))
        except OSError:
            pass


def run(case):
    sim = ctx.activate(ctx.Sim(case['seed'], bufsize=case['bufsize']))
    d = Driver(sim, 'file', path=SRC, opts={'pack_gc': False})
    R = Repo(case, sim, d)
    stats = {}
    try:
        for op in case['ops']:
            k = op['op']
            if k == 'backup':
                R.backup(op)
            elif k == 'clockstep':
                sim.clock.advance(op['s'])
            else:
                try:
                    out = d.execute(op)
                    R.trace.append(out.split(':')[0])
                    if out == 'pack' and (d.last_pack or {}).get(
                            'rewritten', True):
                        R.rewritten_since_check = True
                except Violation:
                    break
            if len(R.viol) >= 8:
                break
        for o, x in d.viol:
            R.flag('source:' + o, x)
        if not R.viol and R.backups:
            dates = [None]
            for b in R.backups:
                dates.append(b['date'])
            # between two backups / before the first
            first = R.backups[0]['date']
            y = int(first[:4])
            dates.append('%04d%s' % (y - 1, first[4:]))
            if len(R.backups) >= 2:
                # one second after a backup = between it and the next
                b = R.backups[len(R.backups) // 2 - 1]
                t = _time.strptime(b['date'], '%Y-%m-%d-%H-%M-%S')
                import calendar
                dates.append(date_str(calendar.timegm(t) + 1))
            r = random.Random(ctx.subseed(case['seed'], 'rec'))
            for date in dates:
                R.recover(date, withverify=r.random() < 0.4)
                if len(R.viol) >= 8:
                    break
            # verify: intact
            for quick in (False, True):
                res = R.verify(quick)
                if res[0] != 'ok':
                    R.flag('verify-fails-intact', 'verify%s on the intact '
                           'repository: %s %s' % (' -Q' if quick else '',
                                                  res[0], res[1]))
            # verify: damaged
            if not R.viol:
                for label, do, undo, must_full, must_quick in R.damages(r):
                    do()
                    rf = R.verify(False)
                    rq = R.verify(True)
                    undo()
                    stats['damage:' + label.split(' ')[0]] = \
                        stats.get('damage:' + label.split(' ')[0], 0) + 1
                    fam = 'verify-misses-damage'
                    if label.startswith('remove ') and label.endswith(
                            ('.fs', '.fsz')) and sum(
                                1 for f in os.listdir(R.repo)
                                if f.endswith(('.fs', '.fsz'))) >= 2:
                        # the newest full backup is gone but an older full
                        # backup exists: repozo silently uses that chain
                        fam = 'verify-misses-removed-newest-full'
                    if must_full and rf[0] == 'ok':
                        R.flag(fam, 'full verify passes after: %s' % label)
                    if must_quick and rq[0] == 'ok':
                        R.flag(fam, 'quick verify passes after: %s' % label)
                    if len(R.viol) >= 8:
                        break
    except Exception as e:      # noqa: B902
        import traceback
        R.flag('program-raises', '%s: %s | %s' % (
            type(e).__name__, str(e)[:80],
            ' / '.join(x.strip()[:70] for x in
                       traceback.format_exc().strip().splitlines()[-5:-1])))
    finally:
        try:
            d.close()
        except Exception:       # noqa: B902
            pass
        R.cleanup()
    stats.update({'sim_time_s': sim.clock.elapsed(),
                  'backups': len(R.backups), 'commits': len(d.model.txns)})
    for t in R.trace:
        stats['op:' + t.split(':')[0]] = stats.get('op:' + t.split(':')[0],
                                                   0) + 1
    for k, n in sim.probes.items():
        stats['probe:' + k] = n
    return {
        'violations': [{'oracle': o, 'detail': x} for o, x in R.viol[:20]],
        'stats': stats,
        'keys': ['|'.join(R.trace)] if len(R.backups) >= 2 else [],
        'evals': max(R.evals, 1),
        'sample': {'ops': case['ops'], 'trace': R.trace,
                   'backups': [(b['date'], b['file'], len(b['bytes']))
                               for b in R.backups]},
        'digest': sim.digest(R.trace, R.viol,
                             [(b['date'], b['file']) for b in R.backups]),
    }


LEVEL_TEXT = ('seeded search over interleavings of commits, packs, parked '
              'and in-flight transactions, clock steps and real repozo '
              'backups of a live FileStorage on the simulated disk (the '
              'in-flight states are rebuilt from the op log), followed by '
              'recover for every date class, verify, and enumerated '
              'single-file damages of the repository.')
LEVEL_NOTE = ('repository on a real tmpfs (gzip/shutil open files '
              'themselves); backups interleave with the writer at '
              'operation granularity plus op-log cuts of one in-flight '
              'commit; trusted: op log, reference model, fsparse')
TECHNIQUE = ('deterministic simulation: seeded interleaving of writer and '
             'backup process under a simulated clock, in-flight data-file '
             'states from the op log, injected repository damage')
