"""Independent decoder of the Data.fs format (written from the format
description in FileStorage/format.py; shares no code with ZODB)."""

import struct

MAGIC = b'FS21'      # older python-2 files; py3 files use b'FS30'
MAGICS = (b'FS21', b'FS30')


class Bad(Exception):
    pass


class PTxn:
    __slots__ = ('pos', 'tid', 'tlen', 'status', 'user', 'desc', 'ext',
                 'recs', 'end')


class PRec:
    __slots__ = ('pos', 'oid', 'tid', 'prev', 'tloc', 'plen', 'back', 'data')


def parse(b, strict_tail=True):
    """Return (transactions, end_of_valid_prefix, problems).

    Decoding stops at the first transaction that is incomplete, has status
    'c', or whose trailing length does not match; what follows is the tail.
    Structural promises inside complete transactions are checked and
    reported in `problems`.
    """
    problems = []
    if len(b) < 4 or b[:4] not in MAGICS:
        raise Bad('bad magic %r' % b[:4])
    pos = 4
    txns = []
    last_tid = b'\0' * 8
    lastpos = {}            # oid -> pos of its latest record
    recs_at = {}            # pos -> PRec
    n = len(b)
    while pos < n:
        if n - pos < 23:
            break
        tid, tlen, status, ul, dl, el = struct.unpack('>8sQcHHH',
                                                      b[pos:pos + 23])
        if status == b'c':
            break
        if pos + tlen + 8 > n:
            break
        if tlen < 23 + ul + dl + el:
            problems.append('txn at %d: tlen < header' % pos)
            break
        if struct.unpack('>Q', b[pos + tlen:pos + tlen + 8])[0] != tlen:
            problems.append('txn at %d: redundant length mismatch' % pos)
            break
        if status not in b' pu':
            problems.append('txn at %d: bad status %r' % (pos, status))
        if tid <= last_tid:
            problems.append('txn at %d: tid not increasing' % pos)
        last_tid = tid
        t = PTxn()
        t.pos = pos
        t.tid = tid
        t.tlen = tlen
        t.status = status.decode('latin1')
        p = pos + 23
        t.user = b[p:p + ul]
        p += ul
        t.desc = b[p:p + dl]
        p += dl
        t.ext = b[p:p + el]
        p += el
        t.recs = []
        tend = pos + tlen
        ok = True
        staged = {}         # prev pointers name the last *committed* record
        while p < tend:
            if tend - p < 42:
                problems.append('txn at %d: short record header' % pos)
                ok = False
                break
            oid, rtid, prev, tloc, vlen, plen = struct.unpack(
                '>8s8sQQHQ', b[p:p + 42])
            r = PRec()
            r.pos = p
            r.oid = oid
            r.tid = rtid
            r.prev = prev
            r.tloc = tloc
            r.plen = plen
            if vlen:
                problems.append('rec at %d: version length' % p)
            if plen:
                r.back = 0
                r.data = b[p + 42:p + 42 + plen]
                rl = 42 + plen
            else:
                r.back = struct.unpack('>Q', b[p + 42:p + 50])[0]
                r.data = None
                rl = 50
            if p + rl > tend:
                problems.append('rec at %d: exceeds transaction' % p)
                ok = False
                break
            if tloc != pos:
                problems.append('rec at %d: tloc %d != %d' % (p, tloc, pos))
            if rtid != tid:
                problems.append('rec at %d: tid differs from txn' % p)
            if prev != lastpos.get(oid, 0) and not (
                    prev == 0 and status == b'p'):
                # (pack writes prev = 0 into every record it keeps from
                # before the pack time)
                problems.append('rec at %d: prev %d != %d'
                                % (p, prev, lastpos.get(oid, 0)))
            if r.back:
                tgt = recs_at.get(r.back)
                if tgt is None or r.back >= p:
                    problems.append('rec at %d: back pointer %d dangling'
                                    % (p, r.back))
                elif tgt.oid != oid:
                    problems.append('rec at %d: back pointer to other oid'
                                    % p)
            recs_at[p] = r
            staged[oid] = p
            t.recs.append(r)
            p += rl
        if not ok:
            break
        lastpos.update(staged)
        t.end = tend + 8
        txns.append(t)
        pos = tend + 8
    return txns, pos, problems, recs_at


def resolve(rec, recs_at):
    """bytes of a record following back pointers; None = un-creation."""
    seen = 0
    while rec.data is None:
        if not rec.back:
            return None
        rec = recs_at.get(rec.back)
        if rec is None:
            raise Bad('dangling back pointer')
        seen += 1
        if seen > 10000:
            raise Bad('back pointer loop')
    return rec.data


def to_history(b):
    """[(tid, status, user, desc, ext, [(oid, data|None)])] of the valid
    prefix, plus problems."""
    txns, end, problems, recs_at = parse(b)
    out = []
    for t in txns:
        if t.status == 'u':
            continue
        recs = []
        for r in t.recs:
            try:
                recs.append((r.oid, resolve(r, recs_at)))
            except Bad as e:
                problems.append('rec at %d: %s' % (r.pos, e))
                recs.append((r.oid, b'<unresolvable>'))
        out.append((t.tid, t.status, t.user, t.desc, t.ext, recs))
    return out, end, problems
