"""zsim -- deterministic simulation with fault injection for ZODB.

See /verif/DESIGN.md.  The package replaces the operating-system boundary
(files, directory operations, fsync, lock file, thread synchronisation, clock,
randomness) seen by the real ZODB code in /repo/src by in-process simulated
components driven by one seed.
"""

SIMROOT = '/sim'          # every path below this lives in the in-memory disk
