"""The reference model of a storage: the ordered list of committed
transactions; every answer is derived by linear scans."""

import base64

DATA, BACK, UNCREATE = 'data', 'back', 'uncreate'

z64 = b'\0' * 8
maxtid = b'\x7f' + b'\xff' * 7


class MRec:
    __slots__ = ('oid', 'kind', 'data', 'src_tid', 'refs', 'cls', 'shadow')

    def __init__(self, oid, kind, data, src_tid=None, refs=(), cls=None):
        self.shadow = False       # kept by a pack only to serve a later
        #                           back pointer: present in the file and
        #                           the iterator, not promised to queries
        self.oid = oid
        self.kind = kind          # DATA / BACK / UNCREATE
        self.data = data          # resolved bytes (None for UNCREATE)
        self.src_tid = src_tid    # BACK: tid of a revision holding the bytes
        self.refs = tuple(refs)   # strong references (oids), by construction
        self.cls = cls

    def copy(self):
        r = MRec(self.oid, self.kind, self.data, self.src_tid, self.refs,
                 self.cls)
        r.shadow = self.shadow
        return r


class MTxn:
    __slots__ = ('tid', 'status', 'user', 'desc', 'ext', 'recs', 'kind')

    def __init__(self, tid, status, user, desc, ext, recs, kind='commit'):
        self.tid = tid
        self.status = status
        self.user = user
        self.desc = desc
        self.ext = ext            # extension *bytes*
        self.recs = recs          # in store order
        self.kind = kind

    def last_recs(self):
        """oid -> the record that counts (the last one for that oid)."""
        d = {}
        for r in self.recs:
            d[r.oid] = r
        return d


class UndoRefused(Exception):
    pass


class Log:

    alt_last = None      # see hist.Driver.verify_pack

    with_shadow = False  # True: shadow records count as revisions

    def __init__(self, txns=None):
        self.txns = list(txns or [])

    def has_shadow(self):
        return any(r.shadow for t in self.txns for r in t.recs)

    def shadow_view(self):
        m = Log(self.txns)
        m.with_shadow = True
        m.alt_last = self.alt_last
        return m

    def copy(self):
        return Log(self.txns)

    # -- derived views ---------------------------------------------------

    def oids(self):
        out = set()
        for t in self.txns:
            for r in t.recs:
                out.add(r.oid)
        return out

    def tids(self):
        return [t.tid for t in self.txns]

    def last_tid(self):
        return self.txns[-1].tid if self.txns else z64

    def revisions(self, oid):
        """[(tid, MRec)] ascending."""
        out = []
        for t in self.txns:
            r = t.last_recs().get(oid)
            if r is not None and (self.with_shadow or not r.shadow):
                out.append((t.tid, r))
        return out

    def current(self, oid):
        revs = self.revisions(oid)
        return revs[-1] if revs else None

    def state_before(self, oid, bound):
        """(tid, rec, end_tid) of the newest revision with tid < bound."""
        revs = self.revisions(oid)
        prev = None
        for i, (tid, r) in enumerate(revs):
            if tid < bound:
                prev = (tid, r, revs[i + 1][0] if i + 1 < len(revs) else None)
            else:
                break
        return prev

    def txn(self, tid):
        for t in self.txns:
            if t.tid == tid:
                return t
        return None

    # -- expected answers (canonical tuples) -----------------------------

    def x_load(self, oid):
        cur = self.current(oid)
        if cur is None:
            return ('key',)
        tid, r = cur
        if r.kind == UNCREATE:
            return ('key',)
        return ('ok', r.data, tid)

    def x_loadBefore(self, oid, bound):
        revs = self.revisions(oid)
        if not revs:
            return ('key',)
        sb = self.state_before(oid, bound)
        if sb is None:
            return ('none',)
        tid, r, end = sb
        if r.kind == UNCREATE:
            return ('gone',)          # POSKeyError or None both acceptable
        return ('ok', r.data, tid, end)

    def x_loadSerial(self, oid, serial):
        for tid, r in self.revisions(oid):
            if tid == serial:
                if r.kind == UNCREATE:
                    return ('gone',)
                return ('ok', r.data)
        return ('key',)

    def x_getTid(self, oid):
        cur = self.current(oid)
        if cur is None:
            return ('key',)
        tid, r = cur
        if r.kind == UNCREATE:
            return ('key',)
        return ('ok', tid)

    def undoable(self):
        """Transactions listed by undoLog, newest first: status ' ' until the
        first packed one."""
        out = []
        for t in reversed(self.txns):
            if t.status == 'p':
                break
            if t.status == ' ':
                out.append(t)
        return out

    def iter_range(self, start=None, stop=None):
        return [t for t in self.txns
                if (start is None or t.tid >= start)
                and (stop is None or t.tid <= stop)]

    # -- transitions -----------------------------------------------------

    def append(self, txn):
        assert not self.txns or txn.tid > self.txns[-1].tid, 'model tid order'
        self.txns.append(txn)

    def plan_undo(self, tids, resolver=None):
        """Compute the records an undo transaction of `tids` (in that order)
        must write.  Returns (list of (oid, kind, data, src_tid, refs, cls,
        how)), or raises UndoRefused.  `how` in {'copy','uncreate','resolve',
        'either'}; 'either' marks outcomes the property leaves open.

        resolver(cls, old_rec, committed_rec, new_rec) -> bytes or None.
        """
        pending = {}       # oid -> MRec written earlier in this undo txn
        out = []
        failures = []
        for utid in tids:
            t = self.txn(utid)
            if t is None or t.status != ' ':
                raise UndoRefused('not undoable: %r' % (utid,))
            oid_fail = {}
            staged = {}
            for rec in t.recs:
                oid = rec.oid
                oid_fail.pop(oid, None)
                try:
                    # every record of one undo() call is judged against the
                    # state left by *earlier* calls (or the committed state)
                    res = self._undo_one(oid, utid, rec, pending, resolver,
                                         t.last_recs()[oid])
                except UndoRefused as e:
                    oid_fail[oid] = e
                else:
                    staged[oid] = MRec(oid, res[1], res[2], res[3], res[4],
                                       res[5])
                    out.append(res)
            pending.update(staged)
            if oid_fail:
                failures.append((utid, oid_fail))
        if failures:
            raise UndoRefused(failures)
        return out

    def _undo_one(self, oid, utid, rec, pending, resolver, last_rec):
        revs = self.revisions(oid)
        # pre = state immediately before the undone transaction
        pre = None
        for tid, r in revs:
            if tid < utid:
                pre = (tid, r)
        # the *record* being undone is `rec` (a transaction can hold several
        # records of one oid; FileStorage processes each)
        if oid in pending:
            cur = pending[oid]
            cur_is_undone = False
        else:
            ctid, cur = revs[-1]
            cur_is_undone = (ctid == utid and cur is rec)
        same = cur_is_undone or (
            cur.kind != UNCREATE and rec.kind != UNCREATE
            and cur.data == rec.data)
        if not same and isinstance(cur.data, tuple) and rec.kind == DATA:
            # `cur` was produced by a resolution earlier in this undo
            # transaction: the storage compares bytes, and a record with
            # the same state can only be the product of the same merge
            try:
                from . import objs
                same = objs.canon_state(
                    objs.decode_record(rec.data)[1]) == cur.data[1]
            except Exception:       # noqa: B902
                same = False
        both_gone = (cur.kind == UNCREATE and rec.kind == UNCREATE)
        if same or both_gone:
            # the property is silent when the current state is an
            # un-creation other than the undone record itself: refusal and
            # the state-restoring outcome are both accepted ('either')
            open_ = 'either-' if (both_gone and not cur_is_undone) else ''
            if pre is None or pre[1].kind == UNCREATE:
                return (oid, UNCREATE, None, None, (), None,
                        open_ + ('uncreate' if pre is None
                                 else 'either-uncreate'))
            ptid, p = pre
            return (oid, BACK, p.data, ptid, p.refs, p.cls, open_ + 'copy')
        # current differs from the undone record
        if pre is None:
            raise UndoRefused('undo of creation followed by changes')
        if cur.kind == UNCREATE or rec.kind == UNCREATE \
                or pre[1].kind == UNCREATE:
            raise UndoRefused('open: uncreate involved')
        ptid, p = pre
        if resolver is not None:
            # the 'old' state of the merge is what loadSerial(oid, undone
            # tid) gives: the last record of that oid in the transaction
            data = resolver(p.cls, last_rec, cur, p)
            if data is not None:
                return (oid, DATA, data, None, (), p.cls, 'resolve')
        raise UndoRefused('conflicting later change')


def undo_id(tid):
    return base64.encodebytes(tid).rstrip()
