"""C05 -- a transaction that does not finish leaves no trace and blocks no
one (DESIGN §6 C05).  History sampled by seed; abort points and failing
low-level operations of the victim transaction enumerated."""

import random

from ZODB.Connection import TransactionMetaData
from ZODB.POSException import ConflictError
from ZODB.POSException import POSError
from ZODB.POSException import StorageError
from ZODB.POSException import StorageTransactionError
from ZODB.utils import z64

from .. import ctx
from .. import gen as G
from .. import simfs
from ..hist import Driver
from ..hist import Violation
from ..hist import oid_of
from ..model import undo_id
from ..sweep import sweep

ID = 'C05'
LEVEL = 'fault_enumeration'
RULE = ('one run = one seeded history (a few commits, a victim transaction, '
        'a follow-up) on one storage kind; per history every abort point '
        '(after begin, after each store, after vote), every protocol '
        'failure (conflict at each store, quota crossing, over-long '
        'metadata) and, for FileStorage, every raw write/truncate/fsync '
        'issued between tpc_begin and the return of tpc_vote failing as a '
        'transient ENOSPC, transient EIO, short write or persistent window '
        'is replayed from scratch; faults inside tpc_finish are judged by '
        'the C01 rule; one evaluation = one such variant; non-trivial = '
        'the victim reached the storage (>= 1 store or a fired fault); '
        'distinct = (kind, variant, outcome, hash of history)')
RULE += ('  '
         'Later addition (10 % of the runs): a DB-level arm in which '
         'another participant makes calls with a foreign transaction '
         '(tpc_finish, tpc_vote, tpc_abort, store, '
         'checkCurrentSerialInTransaction) on the storage adapter the '
         'Connection commits through, between the phases of a commit: '
         'refused, and the commit completes. ')
BUDGET = {'quick': {'runs': 480, 'wall': 300, 'chunk': 5},
          'thorough': {'runs': 24000, 'wall': 1800, 'chunk': 10}}
ASSUMPTIONS = [
    'after a persistent failure window (the cleanup itself could not write) '
    'only state equality of the live storage and after reopen is required, '
    'not byte identity of the data file',
    'faults at or after the status flip in tpc_finish are outside "before '
    'the finish": the transaction must be present in full or absent in full '
    'after reopen',
]
SHRINK = ['prefix']
PATH = '/sim/Data.fs'
KINDS = ['file', 'file', 'file', 'mapping', 'demo:mapping:file',
         'demo:file:mapping']
SHAPES = ['enospc', 'eio', 'short', 'persist']


def gen_adapter(r, tier):
    """The storage a Connection commits through (the per-connection MVCC
    adapter over the real storage): calls with a transaction that is not
    the one in flight, made between the phases of a commit, are rejected
    and the commit goes on as if nothing had happened."""
    calls = [r.choice(('tpc_finish', 'tpc_vote', 'tpc_abort', 'store',
                       'tpc_finish', 'checkCurrentSerialInTransaction'))
             for _ in range(r.randint(1, 3))]
    return {'arm': 'adapter', 'kind': r.choice(('file', 'mapping')),
            'calls': calls, 'when': r.choice(('commit', 'tpc_vote')),
            'first': r.random() < 0.7, 'nobj': r.randint(1, 3),
            'bufsize': 8192, 'tier': tier, 'prefix': []}


def run_adapter(case):
    from ZODB.Connection import TransactionMetaData
    from ZODB.POSException import StorageTransactionError
    from ZODB.utils import z64
    from .. import dbh
    from .. import objs
    sim = ctx.activate(ctx.Sim(case['seed'], bufsize=case['bufsize']))
    viol = []
    trace = []
    db = dbh.make_db(sim, case['kind'])
    try:
        A = dbh.Client(db, 'A')
        c = A.open()
        for i in range(case['nobj']):
            c.root()['c%d' % i] = objs.Cell(i)
        A.commit()
        want = {}
        for i in range(case['nobj']):
            c.root()['c%d' % i].token = want['c%d' % i] = 100 + i
        foreign = TransactionMetaData(b'', b'foreign', {})
        ad = c._storage

        class Meddler:
            transaction_manager = None

            def sortKey(self):
                return '!' if case['first'] else '~~~~'

            def meddle(self):
                for name in case['calls']:
                    args = {'tpc_finish': (foreign,),
                            'tpc_vote': (foreign,),
                            'tpc_abort': (foreign,),
                            'store': (z64, z64, b'x', '', foreign),
                            'checkCurrentSerialInTransaction':
                            (z64, z64, foreign)}[name]
                    try:
                        getattr(ad, name)(*args)
                        got = 'accepted'
                    except StorageTransactionError:
                        got = 'refused'
                    except Exception as e:      # noqa: B902
                        got = type(e).__name__
                    trace.append('%s:%s' % (name, got))
                    if got not in ('refused',) and not (
                            name == 'tpc_abort' and got == 'accepted'):
                        viol.append(('foreign-call-outcome', '%s with a '
                                     'transaction that is not the one in '
                                     'flight: %s' % (name, got)))

            def abort(self, txn):
                pass

            def tpc_begin(self, txn):
                pass

            def commit(self, txn):
                if case['when'] == 'commit':
                    self.meddle()

            def tpc_vote(self, txn):
                if case['when'] == 'tpc_vote':
                    self.meddle()

            def tpc_finish(self, txn):
                pass

            def tpc_abort(self, txn):
                pass
        A.tm.get().join(Meddler())
        try:
            A.commit()
        except Exception as e:      # noqa: B902
            viol.append(('foreign-call-has-effect', 'after %r between the '
                         'phases of a commit (%s, %s the connection) the '
                         'commit raises %s: %s'
                         % (trace, case['when'],
                            'before' if case['first'] else 'after',
                            type(e).__name__, str(e)[:70])))
            A.abort()
            want = {'c%d' % i: i for i in range(case['nobj'])}
        B = dbh.Client(db, 'B')
        cb = B.open()
        got = {n: cb.root()[n].token for n in want}
        if got != want and not viol:
            viol.append(('foreign-call-has-effect', 'after %r a fresh '
                         'connection reads %r, expected %r'
                         % (trace, got, want)))
        # the next transaction begins and commits normally
        c.root()['c0'].token = 7
        try:
            A.commit()
        except Exception as e:      # noqa: B902
            viol.append(('next-transaction-fails', '%s: %s'
                         % (type(e).__name__, str(e)[:70])))
            A.abort()
    except Exception as e:      # noqa: B902
        import traceback
        viol.append(('program-raises', '%s: %s | %s' % (
            type(e).__name__, str(e)[:80],
            ' / '.join(x.strip()[:70] for x in
                       traceback.format_exc().strip().splitlines()[-5:-1]))))
    finally:
        try:
            db.close()
        except Exception:       # noqa: B902
            pass
    return {'violations': [{'oracle': o, 'detail': x} for o, x in viol[:20]],
            'stats': {'sim_time_s': sim.clock.elapsed(), 'arm:adapter': 1},
            'keys': ['adapter|%s|%s|%s|%s' % (case['kind'], case['when'],
                                              case['first'],
                                              ','.join(trace))],
            'evals': 1,
            'sample': {'arm': 'adapter', 'calls': case['calls'],
                       'trace': trace},
            'digest': sim.digest(trace, viol)}


def gen(seed, tier):
    r = random.Random(seed)
    if r.random() < 0.1:
        return gen_adapter(r, tier)
    kind = r.choice(KINDS)
    prefix = G.gen_history(ctx.subseed(seed, 'prefix'),
                           'demo' if kind.startswith('demo') else kind,
                           n=r.randint(1, 5),
                           weights=({'new_oid': 0, 'wrong': 3, 'clock': 0,
                                     'reopen': 3, 'rtxn': 3}
                                    if kind == 'file' else
                                    {'new_oid': 0, 'wrong': 3, 'clock': 0,
                                     'undo': 0, 'delete': 0, 'rtxn': 0,
                                     'reopen': 0}
                                    if kind.startswith('demo') else
                                    {'new_oid': 0, 'wrong': 3, 'clock': 0}))
    noids = r.choice((2, 3, 5))
    vk = r.random()
    if kind == 'file' and vk < 0.15 and prefix:
        victim = {'op': 'undo', 'targets': [-1 - r.randrange(3)]}
    elif kind == 'file' and vk < 0.22:
        victim = {'op': 'delete', 'o': r.randrange(noids)}
    else:
        victim = {'op': 'txn', 'recs': [
            G.gen_rec(r, noids, kind, sizes=(0, 10, 200, 3000, 9000))
            for _ in range(r.randint(1, 4))]}
        for rec in victim['recs']:
            rec.pop('serial', None)
        m = G.gen_meta(r, big=False)
        if m:
            victim['meta'] = m
    follow = {'op': 'txn', 'recs': [G.gen_rec(r, noids, kind,
                                              sizes=(0, 10, 200))]}
    follow['recs'][0].pop('serial', None)
    for op in prefix:
        for rec in op.get('recs', ()):
            if rec.get('size', 0) > 3000:
                rec['size'] = 3000
    return {'kind': kind, 'prefix': prefix, 'victim': victim,
            'follow': follow,
            'bufsize': r.choice((16, 64, 512, 4096, 8192, 65536)),
            'reads_in_flight': r.random() < 0.7,
            'tier': tier}


class Run:
    """One variant: prefix, victim with one fault/abort, follow-up."""

    def __init__(self, case, variant):
        self.case = case
        self.variant = variant
        self.viol = []
        self.fired = 0
        self.outcome = None
        self.raw_ops = 0
        self.finish_ops = 0
        self.sim = ctx.activate(ctx.Sim(case['seed'],
                                        bufsize=case['bufsize']))
        self.d = Driver(self.sim, case['kind'], path=PATH)

    def flag(self, oracle, detail):
        v = self.variant
        if v[0] == 'io' and v[2] == 'persist':
            # consequences of a failure that persists through the cleanup
            # are one family (see known_findings.json)
            oracle = 'persist/' + oracle
        self.viol.append((oracle, '%s: %s' % (self.variant, detail)))

    def go(self):
        d = self.d
        try:
            for op in self.case['prefix']:
                d.execute(op)
        except Violation:
            pass
        self.viol.extend(d.viol)
        del d.viol[:]
        if self.viol:
            return self
        self.before_img = self.sim.fs.image() if d.kind == 'file' else None
        self.ncommit = len(d.model.txns)
        try:
            self.victim()
        except simfs.InjectedFault as e:
            self.flag('fault-escapes-abort', 'tpc_abort raised the injected '
                      'error %s' % e)
        self.after()
        return self

    # -- the victim ------------------------------------------------------

    def victim(self):
        d = self.d
        st = d.st
        fs = self.sim.fs
        v = self.variant
        vop = self.case['victim']
        kind = v[0]
        meta = dict(vop.get('meta') or {})
        if kind == 'longmeta':
            meta[v[1]] = 65536 + 10
        user, desc, ext = d.meta(meta)
        t = TransactionMetaData(user, desc, ext)
        self.vmeta = (user, desc, d.ext_bytes(ext))
        self.vrecs = []
        plan = None
        if kind == 'io':
            shape = v[2]
            e = {'at': v[1], 'kind': 'enospc'}
            if shape == 'eio':
                e['kind'] = 'eio'
            elif shape == 'short':
                e['kind'] = 'short'
            elif shape == 'persist':
                e['span'] = None
            plan = fs.arm(simfs.FaultPlan([e]))
        n0 = fs.nraw
        raised = None
        phase = 'begin'
        finished = False
        try:
            st.tpc_begin(t)
            if kind == 'abort' and v[1] == 'begin':
                raise _Abort()
            nstore = 0
            if vop['op'] == 'txn':
                for i, r in enumerate(vop['recs']):
                    phase = 'store%d' % i
                    oid = oid_of(r['o'])
                    cls, state, data, strong = d.new_state(r)
                    how = None
                    if kind == 'conflict' and v[1] == i:
                        how = 'never'
                        if d.model.current(oid) is None:
                            self.skipped = True     # nothing to conflict with
                            raise _Abort()
                    serial = d.pick_serial(oid, how, None)
                    if kind == 'quota' and v[1] == i:
                        st._quota = 0
                    st.store(oid, serial, data, '', t)
                    from ..model import DATA, MRec
                    self.vrecs.append(MRec(oid, DATA, data, None, strong,
                                           cls))
                    nstore += 1
                    if kind == 'abort' and v[1] == 'store%d' % i:
                        raise _Abort()
            elif vop['op'] == 'undo':
                phase = 'undo'
                und = d.model.txns
                if und:
                    tid = und[vop['targets'][0] % len(und)].tid
                    st.undo(undo_id(tid), t)
                    nstore += 1
            elif vop['op'] == 'delete':
                phase = 'delete'
                oid = oid_of(vop['o'])
                cur = d.model.current(oid)
                st.deleteObject(oid, cur[0] if cur else z64, t)
                nstore += 1
            self.nstore = nstore
            if kind not in ('io', 'finish-io'):
                # calls with a transaction other than the one in flight:
                # rejected, and the one in flight is not disturbed
                d.op_wrong({'o': 1})
            phase = 'vote'
            st.tpc_vote(t)
            if kind not in ('io', 'finish-io'):
                d.op_wrong({'o': 2})
            self.raw_ops = fs.nraw - n0
            # other threads keep reading while the transaction is in
            # flight: pooled read handles may read ahead into its bytes
            self.read_some()
            self.vtid = getattr(st, '_tid', None)
            if kind in ('abort', 'dry') or (kind == 'io'
                                            and not plan.fired):
                # abort after vote (also the fate of a fault plan that
                # never fired inside begin..vote)
                raise _Abort()
            # variants that let the transaction reach tpc_finish
            phase = 'finish'
            if kind == 'finish-io':
                e = {'at': v[1], 'kind': 'eio' if v[2] == 'eio'
                     else 'enospc'}
                if v[2] == 'persist':
                    e['span'] = None
                plan = fs.arm(simfs.FaultPlan([e]))
            n1 = fs.nraw
            st.tpc_finish(t)
            self.finish_ops = fs.nraw - n1
            finished = True
        except _Abort:
            pass
        except (OSError, POSError) as e:
            raised = e
        except Exception as e:      # noqa: B902
            raised = e
            if not (kind == 'io' or kind == 'finish-io'):
                self.flag('victim-exception', 'unexpected %s in %s: %s'
                          % (type(e).__name__, phase, str(e)[:60]))
        self.phase = phase
        self.raised = raised
        self.finished = finished
        if plan is not None:
            self.fired = len(plan.fired)
            self.sim.stats_faults = plan.fired
        if kind == 'io' and v[2] != 'persist':
            fs.disarm()
        if kind == 'quota':
            st._quota = None
        self.phase = phase
        from ZODB.POSException import StorageTransactionError
        if isinstance(raised, StorageTransactionError):
            # the victim's own calls carry the right transaction (the
            # calls with a foreign one must not disturb the one in flight)
            self.flag('victim-exception', 'unexpected %s in %s: %s'
                      % (type(raised).__name__, phase, str(raised)[:60]))
        if kind in ('conflict', 'quota', 'longmeta') and raised is None \
                and not getattr(self, 'skipped', False):
            self.flag('failure-not-reported', 'the %s did not raise' % kind)
        if not finished and not (kind == 'finish-io' and phase == 'finish'):
            if raised is not None:
                self.read_some()
            # the client's reaction to any failure: tpc_abort
            try:
                st.tpc_abort(t)
            except simfs.InjectedFault as e:
                # the cleanup itself hit the failure window
                self.abort_hit = True
                if not (kind == 'io' and v[2] == 'persist'):
                    self.flag('abort-raises', 'tpc_abort raised the '
                              'injected error although the failure was '
                              'transient: %s' % e)
            except Exception as e:          # noqa: B902
                self.flag('abort-raises', 'tpc_abort raised %s: %s'
                          % (type(e).__name__, str(e)[:60]))
        fs.disarm()
        self.t = t
        self.outcome = ('finished' if finished else
                        'raised:%s@%s' % (type(raised).__name__, phase)
                        if raised is not None else 'aborted@' + phase)

    def read_some(self):
        """Loads through the storage's reader pool (load/loadBefore) of
        the most recently written objects, which lie near the end of the
        file."""
        d = self.d
        if not self.case.get('reads_in_flight', True):
            return
        seen = set()
        for t in reversed(d.model.txns[-3:]):
            for r in t.recs:
                if r.oid in seen:
                    continue
                seen.add(r.oid)
                try:
                    d.st.load(r.oid)
                    d.st.loadBefore(r.oid, t.tid)
                except Exception:       # noqa: B902 -- judged by the sweeps
                    pass

    # -- oracles ---------------------------------------------------------

    def after(self):
        d = self.d
        st = d.st
        v = self.variant
        fs = self.sim.fs
        m = d.model
        if v[0] == 'finish-io' and (self.finished or self.phase == 'finish'):
            if self.raised is None and self.finished:
                return      # the fault did not fire: an ordinary commit
            return self.after_finish_fault()
        if v[0] == 'dryfinish':
            return
        if self.finished:
            # no fault fired and the variant did not abort: ordinary commit
            self.flag('harness', 'victim finished in variant %r' % (v,))
            return
        # (a) live state equals the state before the victim
        bad = sweep(st, m, d.caps, tag='live after failed victim: ',
                    full=True)
        for name, msg in bad[:3]:
            self.flag('trace-live:' + name, msg)
        # (b) data file byte-identical (not demanded after a persistent
        # window: the cleanup itself could not write)
        if d.kind == 'file' and not (v[0] == 'io' and v[2] == 'persist'):
            now = fs.read_bytes(PATH)
            if now != self.before_img[PATH]:
                self.flag('trace-file', 'data file differs from its image '
                          'before the transaction (%d vs %d bytes)'
                          % (len(now), len(self.before_img[PATH])))
        # (e) the aborted transaction is no longer "the" transaction
        try:
            st.tpc_vote(self.t)
        except StorageTransactionError:
            pass
        except Exception as e:          # noqa: B902
            self.flag('stale-transaction', 'tpc_vote of the aborted '
                      'transaction raised %s' % type(e).__name__)
        else:
            self.flag('stale-transaction', 'tpc_vote of the aborted '
                      'transaction was accepted')
        # (d) the next transaction begins and commits
        try:
            out = d.execute(self.case['follow'])
        except Violation:
            out = 'violation'
        except ctx.SimDeadlock:
            self.flag('blocks-next', 'the next transaction cannot begin: '
                      'commit lock still held')
            return
        except Exception as e:          # noqa: B902
            self.flag('next-fails', 'follow-up transaction raised %s: %s'
                      % (type(e).__name__, str(e)[:80]))
            return
        for o, x in d.viol:
            self.flag('next:' + o, x)
        del d.viol[:]
        if out != 'commit':
            self.flag('next-fails', 'follow-up transaction outcome %s' % out)
        bad = sweep(st, m, d.caps, tag='live after follow-up: ', full=True)
        for name, msg in bad[:3]:
            self.flag('trace-live-next:' + name, msg)
        if d.kind == 'file':
            d.check_file('after follow-up: ')
            for o, x in d.viol:
                self.flag('next:' + o, x)
            del d.viol[:]
            # after close + reopen
            try:
                d.execute({'op': 'reopen'})
            except Violation:
                pass
            for o, x in d.viol:
                self.flag('reopen:' + o, x)
            del d.viol[:]
            d.close()

    def after_finish_fault(self):
        """A fault inside tpc_finish: C01's rule -- after a reopen the
        transaction is present in full or absent in full."""
        from ..model import Log, MTxn
        d = self.d
        m0 = Log(d.model.txns)
        m1 = None
        if self.vtid is not None and self.case['victim']['op'] == 'txn':
            m1 = Log(d.model.txns + [MTxn(self.vtid, ' ', self.vmeta[0],
                                          self.vmeta[1], self.vmeta[2],
                                          list(self.vrecs))])
        # the live storage object either refuses everything (it closed
        # itself) or still answers like one of the two states
        live0 = sweep(d.st, m0, d.caps, tag='live after finish fault: ',
                      full=False)
        if live0 and not all("'err'" in b[1] for b in live0):
            live1 = sweep(d.st, m1, d.caps, tag='live after finish fault: ',
                          full=False) if m1 is not None else live0
            if live1 and not all("'err'" in b[1] for b in live1):
                for name, msg in live1[:2]:
                    self.flag('finish-fault-live-state:' + name, msg)
        if not live0:
            # the live storage carries on as if the transaction were
            # absent: then the next transaction must commit cleanly on it
            # and survive a reopen
            try:
                out = d.execute(self.case['follow'])
                d.check_file('after follow-up on the storage that survived '
                             'a finish fault: ')
                d.execute({'op': 'reopen'})
            except Violation:
                out = 'violation'
            except Exception:           # noqa: B902
                # it did close itself (partly): judged after a reopen below
                out = 'raised'
            if out != 'raised':
                for o, x in d.viol:
                    self.flag('finish-fault-next:' + o, x)
                del d.viol[:]
                self.outcome = 'finish-fault:live-absent'
                try:
                    d.close()
                except Exception:       # noqa: B902
                    pass
                return
            del d.viol[:]
        try:
            d.close()
        except Exception:       # noqa: B902 -- it may have closed itself
            pass
        self.sim.fs.locks.clear()
        try:
            d.open()
        except Exception as e:  # noqa: B902
            self.flag('finish-fault-reopen-raises', 'reopen after a fault '
                      'inside tpc_finish raised %s: %s'
                      % (type(e).__name__, str(e)[:80]))
            return
        bad0 = sweep(d.st, m0, d.caps, tag='reopened (absent): ')
        if not bad0:
            self.outcome = 'finish-fault:absent'
            d.close()
            return
        bad1 = sweep(d.st, m1, d.caps, tag='reopened (present): ') \
            if m1 is not None else bad0
        if not bad1:
            self.outcome = 'finish-fault:present'
            d.close()
            return
        for name, msg in (bad1 if len(bad1) <= len(bad0) else bad0)[:2]:
            self.flag('finish-fault-mixed-state:' + name, msg)
        d.close()


class _Abort(Exception):
    pass


def variants_for(case, raw_ops, finish_ops, nstore, tier):
    kind = case['kind']
    vop = case['victim']
    out = [('abort', 'begin'), ('abort', 'vote')]
    if vop['op'] == 'txn':
        n = len(vop['recs'])
        out += [('abort', 'store%d' % i) for i in range(n)]
        out += [('conflict', i) for i in range(n)]
        if kind == 'file':
            out += [('quota', i) for i in range(n)]
    if kind.startswith('demo') and kind.endswith(':file'):
        # the changes layer refuses over-long metadata at tpc_begin
        out += [('longmeta', k) for k in 'ude']
    if kind == 'file':
        out += [('longmeta', k) for k in 'ude']
        for i in range(raw_ops):
            for s in SHAPES:
                out.append(('io', i, s))
        if vop['op'] == 'txn':
            for j in range(finish_ops):
                for s in ('enospc', 'eio', 'persist'):
                    out.append(('finish-io', j, s))
    return out


def run(case):
    if case.get('arm') == 'adapter':
        return run_adapter(case)
    tier = case.get('tier', 'quick')
    viol = []
    stats = {}
    keys = []
    evals = 0
    dry = Run(case, ('dry',)).go()
    viol.extend(dry.viol)
    if not viol and case['kind'] == 'file':
        df = Run(case, ('dryfinish',)).go()
        dry.finish_ops = df.finish_ops
    sim_time = dry.sim.clock.elapsed()
    outcomes = []
    if not viol:
        vs = variants_for(case, dry.raw_ops, dry.finish_ops,
                          getattr(dry, 'nstore', 0), tier)
        hh = '%x' % (ctx.subseed(case['seed'], 'h') & 0xffffff)
        for v in vs:
            r = Run(case, v).go()
            evals += 1
            viol.extend(r.viol)
            outcomes.append((v, r.outcome, r.fired))
            stats['variant:' + v[0]] = stats.get('variant:' + v[0], 0) + 1
            if r.fired:
                for f in getattr(r.sim, 'stats_faults', ()):
                    stats['fault:' + f[0]] = stats.get('fault:' + f[0], 0) + 1
            if r.outcome:
                k = 'outcome:' + r.outcome.split(':')[0].split('@')[0]
                stats[k] = stats.get(k, 0) + 1
            if getattr(r, 'nstore', 0) or r.fired:
                keys.append('%s|%r|%s|%s' % (case['kind'], v, r.outcome, hh))
            if len(viol) >= 20:
                break
    stats['sim_time_s'] = sim_time
    stats['kind:' + case['kind']] = 1
    stats['raw_ops_begin_to_vote'] = dry.raw_ops
    return {
        'violations': [{'oracle': o, 'detail': x} for o, x in viol[:20]],
        'stats': stats,
        'keys': keys,
        'evals': max(evals, 1),
        'sample': {'kind': case['kind'], 'prefix': case['prefix'],
                   'victim': case['victim'], 'follow': case['follow'],
                   'variants': [[list(map(str, v)), o, f]
                                for v, o, f in outcomes[:40]]},
        'digest': dry.sim.digest(repr(outcomes), repr(viol)),
    }


LEVEL_TEXT = ('per sampled history the failure points of the commit protocol '
              'are enumerated, not sampled: each abort point, each protocol '
              'failure and each raw write/truncate/fsync of the victim '
              'failing in four shapes is replayed on the real storage over '
              'the simulated disk; afterwards the live storage, the data '
              'file bytes, the reopened storage and a follow-up commit are '
              'compared with the reference model.  Histories are sampled by '
              'seed.')
LEVEL_NOTE = ('storage-level arm (FileStorage on simfs, MappingStorage); '
              'Connection-level failing participants are exercised by C11; '
              'blob cleanup by C13; the follow-up transaction runs after the '
              'failure window has ended; trusted: fault plan of simfs, '
              'reference model')
TECHNIQUE = ('deterministic simulation: enumerated fault injection at every '
             'raw I/O call and abort point of a sampled history, '
             'reference-model comparison')
