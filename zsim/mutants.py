"""Sensitivity self-test: apply one small source mutation to a scratch copy
of /repo/src and expect the relevant check to report a confirmed VIOLATION.

bin/zsim selftest mutants [--checks C01,C04]
"""

import os
import shutil
import subprocess
import sys
import time

from . import runner

FS = 'ZODB/FileStorage/FileStorage.py'
BS = 'ZODB/BaseStorage.py'
MS = 'ZODB/MappingStorage.py'
MV = 'ZODB/mvccadapter.py'
CN = 'ZODB/Connection.py'
PK = 'ZODB/FileStorage/fspack.py'
DS = 'ZODB/DemoStorage.py'
BL = 'ZODB/blob.py'
DBF = 'ZODB/DB.py'
CR = 'ZODB/ConflictResolution.py'
RZ = 'ZODB/scripts/repozo.py'
RC = 'ZODB/fsrecover.py'

# (property, name, file, old, new)
MUTANTS = [
    ('C01', 'no-fsync', FS,
     "        if fsync is not None:\n            fsync(self._file.fileno())",
     "        if False:\n            fsync(self._file.fileno())"),
    ('C01', 'vote-writes-final-status', FS,
     'h = TxnHeader(self._tid, tl, "c", len(user),',
     'h = TxnHeader(self._tid, tl, " ", len(user),'),
    ('C01', 'read-index-ignores-checkpoint', FS,
     "if pos + (tl + 8) > file_size or status == 'c':",
     "if pos + (tl + 8) > file_size:"),
    ('C01', 'read-index-no-truncate', FS,
     "                _truncate(file, name, pos)\n            break\n\n"
     "        if status not in ' up':",
     "                pass\n            break\n\n"
     "        if status not in ' up':"),
    ('C04', 'loadBefore-le', FS,
     "                if h.tid < tid:\n                    break\n",
     "                if h.tid <= tid:\n                    break\n"),
    ('C04', 'no-laterThan', BS,
     "self._ts = t = t.laterThan(self._ts)",
     "self._ts = t"),
    ('C04', 'mapping-loadBefore-end', MS,
     "tids_after = tid_data.keys(tid, None)",
     "tids_after = tid_data.keys(ZODB.utils.p64(before + 2), None)"),
    ('C04', 'history-skips', FS,
     "                if h.prev:\n                    pos = h.prev\n"
     "                else:\n                    return r",
     "                if h.prev and len(r) < 2:\n                    pos = h.prev\n"
     "                else:\n                    return r"),
    ('C05', 'abort-no-truncate', FS,
     "        if self._nextpos:\n            self._file.truncate(self._pos)\n"
     "            self._files.flush()",
     "        if self._nextpos:\n            self._files.flush()"),
    ('C05', 'vote-error-no-truncate', FS,
     "                self._file.truncate(self._pos)\n"
     "                self._files.flush()\n                raise",
     "                self._files.flush()\n                raise"),
    ('C05', 'abort-keeps-commit-lock', BS,
     "            finally:\n                self._commit_lock_release()",
     "            finally:\n                pass"),
    ('C05', 'abort-keeps-transaction', BS,
     "                self._clear_temp()\n                self._transaction = None\n"
     "            finally:\n                self._commit_lock_release()",
     "                self._clear_temp()\n"
     "            finally:\n                self._commit_lock_release()"),
    ('C05', 'mapping-abort-keeps-lock', MS,
     "        self._transaction = None\n        self._commit_lock.release()\n\n"
     "    # ZODB.interfaces.IStorage\n    def tpc_begin",
     "        self._transaction = None\n\n"
     "    # ZODB.interfaces.IStorage\n    def tpc_begin"),
    ('C05', 'quota-checked-never', FS,
     "            # Check quota\n            if self._quota is not None and here > self._quota:\n"
     "                raise FileStorageQuotaError(\n"
     "                    \"The storage quota has been exceeded.\")\n\n"
     "    def deleteObject",
     "\n    def deleteObject"),
    # (skipping findReachableFromFuture altogether only makes packs *fail*
    # with PackError -- no property demands that a pack succeeds)
    ('C05', 'finish-failure-keeps-running', FS,
     "            logger.critical(\"Failure in _finish. Closing.\", exc_info=True)\n            self.close()\n            raise",
     "            logger.critical(\"Failure in _finish. Closing.\", exc_info=True)\n            raise"),
    ('C07', 'copier-prev-zero', PK,
     "        old = self._index.get(oid, 0)\n        # Calculate the pos the record will have in the storage.",
     "        old = 0\n        # Calculate the pos the record will have in the storage."),
    ('C07', 'pack-boundary-ge', PK,
     "            if th.tid > self.packtime:\n                break\n"
     "            self.checkTxn(th, pos)\n            if th.status != \"p\":",
     "            if th.tid >= self.packtime:\n                break\n"
     "            self.checkTxn(th, pos)\n            if th.status != \"p\":"),
    ('C07', 'mapping-pack-drops-kept', MS,
     "                tids_to_remove.pop()    # Keep the last, if any\n",
     "                pass\n"),
    ('C07', 'packed-backpointer-not-resolved', PK,
     "                data = self.fetchDataViaBackpointer(h.oid, h.back)\n\n"
     "            self.writePackedDataRecord(h, data, new_tpos)",
     "                data = None\n\n"
     "            self.writePackedDataRecord(h, data, new_tpos)"),
    ('C05', 'adapter-forgets-oids-before-finish-is-accepted', MV,
     "        modified = self._modified\n\n        def invalidate_finish(tid):",
     "        modified = self._modified\n        self._modified = None\n\n        def invalidate_finish(tid):"),
    ('C08', 'read-handle-marked-returned-before-it-is-pooled', FS,
     "            self._files.append(f)\n            self._out.remove(f)\n",
     "            self._out.remove(f)\n            self._files.append(f)\n"),
    ('C11', 'primary-close-checks-secondaries-late', CN,
     "            for connection in self.connections.values():\n                if not connection._needs_to_join:\n                    raise ConnectionStateError(\n                        \"Cannot close a connection joined to a transaction\")\n",
     "            pass\n"),
    ('C11', 'abort-savepoint-invalidates-objects-about-to-be-disowned', CN,
     "        self._cache.invalidate([oid for oid in src.index\n                                if oid not in self._creating])",
     "        self._cache.invalidate(src.index)"),
    ('C12', 'abort-skips-creating-when-savepoints-exist', CN,
     "            self._abort(self._savepoint_storage.creating)\n            self._abort_savepoint()\n        else:\n            self._abort()\n\n        self._invalidate_creating()",
     "            self._abort(self._savepoint_storage.creating)\n            self._abort_savepoint()\n        else:\n            self._abort()\n            self._invalidate_creating()"),
    ('C17', 'recover-takes-a-stopped-iteration-for-the-end', RC,
     "            if records._pos != records._tend:",
     "            if False:"),
    ('C13', 'undo-compares-blob-records-only', FS,
     "                    if data_to_be_undone != current_data or \\\n                            self.is_blob_record(current_data):",
     "                    if data_to_be_undone != current_data:"),
    ('C09', 'time-travel-open-uses-saved-index', FS,
     "        r = self._restore_index() if stop == b'\\377' * 8 else None",
     "        r = self._restore_index()"),
    ('C09', 'readonly-open-creates-absent-file', FS,
     "                if read_only:\n                    # When open request is read-only we do not want to create\n                    # the file\n                    raise\n",
     ""),
    ('C01', 'zero-tail-with-zero-length-panics', FS,
     "            if file_size - rtl < pos or rtl < TRANS_HDR_LEN:",
     "            if file_size - rtl < pos:"),
    ('C15', 'open-forgets-newest-id-as-clock-floor', FS,
     "        self._ts = tid = TimeStamp(tid)\n        t = time.time()",
     "        tid = TimeStamp(tid)\n        t = time.time()"),
    ('C18', 'backup-written-under-final-name', RZ,
     "    tempname = os.path.join(os.path.dirname(dst), 'tmp.tmp')",
     "    tempname = dst"),
    ('C10', 'resolver-instance-without-constructor-arguments', CR,
     "klass.__new__(klass, *newargs)",
     "klass.__new__(klass)"),
    ('C09', 'sanity-ignores-positions', FS,
     "                if index.get(h.oid, 0) != opos:\n                    return 0  # insane",
     "                if False:\n                    return 0  # insane"),
    ('C09', 'readonly-truncates-tail', FS,
     "            if not read_only:\n                logger.warning(\"%s truncated, possibly due to damaged\"",
     "            if True:\n                logger.warning(\"%s truncated, possibly due to damaged\""),
    # (dropped: 'sanity-accepts-longer-index' -- skipping the size test of
    # _check_sanity is unobservable since fix a4070b6: the read beyond the
    # end of the file then fails inside the try block and the index is
    # ignored all the same)
    ('C09', 'readonly-saves-index', FS,
     "        if self._is_read_only:\n            return\n\n        index_name = self.__name__ + '.index'",
     "        index_name = self.__name__ + '.index'"),
    ('C09', 'readonly-new-oid', BS,
     "    def new_oid(self):\n        if self._is_read_only:\n            raise POSException.ReadOnlyError()",
     "    def new_oid(self):\n        if False:\n            raise POSException.ReadOnlyError()"),
    ('C05', 'foreign-tpc-abort-aborts-the-one-in-flight', BS,
     "            if transaction is not self._transaction:\n                return\n\n            try:\n                self._abort()",
     "            if self._transaction is None:\n                return\n\n            try:\n                self._abort()"),
    ('C06', 'undo-always-copies', FS,
     "                        # files).  We can't just copy:\n                        copy = False",
     "                        # files).  We can't just copy:\n                        copy = True"),
    ('C06', 'undo-creation-writes-prev', FS,
     "            # (possibly because some of them were undos).\n            return \"\", 0, ipos",
     "            # (possibly because some of them were undos).\n            return \"\", ipos, ipos"),
    ('C06', 'undo-no-invalidation', MV,
     "            self._base._invalidate_finish(tid, self._undone, None)\n            func(tid)",
     "            func(tid)"),
    ('C06', 'undo-resolve-args-swapped', FS,
     "                oid, ctid, tid, pre_data, current_data)",
     "                oid, tid, ctid, pre_data, current_data)"),
    ('C06', 'undo-partial-on-failure', FS,
     "        if failures:\n            raise MultipleUndoErrors(list(failures.items()))",
     "        if failures and not tindex:\n            raise MultipleUndoErrors(list(failures.items()))"),
    ('C06', 'undo-packed-allowed', FS,
     "        if th.status != \" \":\n            raise UndoError('non-undoable transaction')",
     "        if False:\n            raise UndoError('non-undoable transaction')"),
    ('C02', 'poll-without-max', MV,
     "self._start = p64(u64(max(ltid, self._ltid)) + 1)",
     "self._start = p64(u64(ltid) + 1)"),
    # (calling f(tid) after _finish but still inside write_lock + _lock is
    # unobservable: readers and lastTransaction() are excluded until the
    # locks are released; the mutant below moves it outside)
    ('C02', 'invalidate-after-locks-released', FS,
     ("                    if f is not None:\n                        f(tid)\n"
      "                    self._finish(tid, *self._ude)",
      "                    self._commit_lock.release()\n        return tid\n\n    def _finish("),
     ("                    self._finish(tid, *self._ude)",
      "                    self._commit_lock.release()\n        if f is not None:\n            f(tid)\n        return tid\n\n    def _finish(")),
    ('C02', 'finish-without-write-lock', FS,
     "    def tpc_finish(self, transaction, f=None):\n        with self._files.write_lock():",
     "    def tpc_finish(self, transaction, f=None):\n        with contextlib.nullcontext():"),
    ('C02', 'open-skips-boundary', CN,
     "            self.newTransaction(None, False)\n\n        transaction_manager.registerSynch(self)",
     "            pass\n\n        transaction_manager.registerSynch(self)"),
    ('C02', 'boundary-keeps-cache', CN,
     "            invalidated = self._cache.cache_data.copy()\n        self._cache.invalidate(invalidated)",
     "            invalidated = self._cache.cache_data.copy()\n        pass"),
    ('C02', 'load-ignores-snapshot', MV,
     "        r = self._storage.loadBefore(oid, self._start)\n        if r is None:\n            # object was deleted",
     "        r = self._storage.loadBefore(oid, b'\\x7f' + b'\\xff' * 7)\n        if r is None:\n            # object was deleted"),
    ('C02', 'mapping-finish-invalidates-late', MS,
     "        tid = self._tid\n        func(tid)\n\n        tdata = self._tdata",
     "        tid = self._tid\n\n        tdata = self._tdata"),
    ('C02', 'invalidate-skips-last-instance', MV,
     "            for instance in self._instances:\n                if instance is not committing_instance:\n                    instance._invalidate(tid, oids)",
     "            for instance in list(self._instances)[:-1]:\n                if instance is not committing_instance:\n                    instance._invalidate(tid, oids)"),
    ('C03', 'file-store-compares-nothing', FS,
     "                if oldserial != committed_tid:\n                    data = self.tryToResolveConflict(oid, committed_tid,",
     "                if False:\n                    data = self.tryToResolveConflict(oid, committed_tid,"),
    ('C03', 'mapping-store-compares-nothing', MS,
     "            if serial != old_tid:\n                raise ZODB.POSException.ConflictError(",
     "            if False:\n                raise ZODB.POSException.ConflictError("),
    ('C03', 'commit-lock-not-taken', BS,
     "        self._commit_lock.acquire()\n\n        with self._lock:\n            self._transaction = transaction\n            self._clear_temp()",
     "        self._commit_lock.acquire(False)\n\n        with self._lock:\n            self._transaction = transaction\n            self._clear_temp()"),
    ('C03', 'readcurrent-noop', BS,
     "    committed_tid = self.getTid(oid)\n    if committed_tid != serial:",
     "    committed_tid = self.getTid(oid)\n    if False:"),
    # (DemoStorage.store looking at the changes layer only, and dropping
    # the cache invalidation after a failed readCurrent check, are both
    # unobservable: a stale serial implies a newer revision in the changes
    # layer, and the MVCC boundary invalidates the same object anyway)
    # (DemoStorage.store comparing nothing is also unobservable: the
    # changes storage repeats the comparison)
    ('C08', 'swap-keeps-pooled-readers', FS,
     "                    self._files.empty()\n                    self._file.close()\n                    try:\n                        os.rename(self._file_name, oldpath)",
     "                    self._file.close()\n                    try:\n                        os.rename(self._file_name, oldpath)"),
    ('C08', 'copyone-does-not-retake-commit-lock', PK,
     "        self.index.update(self.tindex)\n        self.tindex.clear()\n        self._commit_lock.acquire()\n        self.locked = True\n        return ipos",
     "        self.index.update(self.tindex)\n        self.tindex.clear()\n        self.locked = False\n        return ipos"),
    ('C08', 'failure-keeps-commit-lock', PK,
     "            close_files_remove()\n            if self.locked:\n                self._commit_lock.release()\n            raise  # don't succeed silently",
     "            close_files_remove()\n            raise  # don't succeed silently"),
    ('C08', 'pack-flag-not-reset', FS,
     "            with self._lock:\n                self._pack_is_in_progress = False\n\n        with self._lock:\n            self._save_index()",
     "            pass\n\n        with self._lock:\n            self._save_index()"),
    ('C08', 'swap-without-write-lock', FS,
     "            opos, index = pack_result\n            with self._files.write_lock():\n                with self._lock:",
     "            opos, index = pack_result\n            with contextlib.nullcontext():\n                with self._lock:"),
    ('C08', 'second-pack-not-refused', FS,
     "            if self._pack_is_in_progress:\n                raise FileStorageError('Already packing')",
     "            if False:\n                raise FileStorageError('Already packing')"),
    ('C08', 'packer-reads-buffered-tail', PK,
     "                self._file = open(self._path, \"rb\", 0)\n                self._file.seek(0, 2)",
     "                self._file = open(self._path, \"rb\")\n                self._file.seek(0, 2)"),
    ('C20', 'new-oid-without-lock', BS,
     "        with self._lock:\n            last = self._oid\n            d = byte_ord(last[-1])",
     "        if True:\n            last = self._oid\n            d = byte_ord(last[-1])"),
    ('C20', 'store-does-not-raise-counter', FS,
     "        with self._lock:\n            if oid > self._oid:\n                self.set_max_oid(oid)\n            old = self._index_get(oid, 0)\n            committed_tid = None",
     "        with self._lock:\n            old = self._index_get(oid, 0)\n            committed_tid = None"),
    ('C20', 'restore-does-not-raise-counter', FS,
     "        with self._lock:\n            if oid > self._oid:\n                self.set_max_oid(oid)\n            prev_pos = 0",
     "        with self._lock:\n            prev_pos = 0"),
    ('C20', 'reopen-forgets-max-oid', FS,
     "    try:\n        maxoid = index.maxKey()\n    except ValueError:",
     "    try:\n        maxoid = z64\n    except ValueError:"),
    ('C20', 'demo-ignores-base', DS,
     "                        try:\n                            load_current(self.base, oid)\n                        except ZODB.POSException.POSKeyError:\n                            self._next_oid += 1",
     "                        try:\n                            raise ZODB.POSException.POSKeyError(oid)\n                        except ZODB.POSException.POSKeyError:\n                            self._next_oid += 1"),
    ('C20', 'demo-ignores-issued', DS,
     "                if oid not in self._issued_oids and \\\n                        oid not in self._stored_oids:",
     "                if oid not in self._stored_oids:"),
    ('C20', 'demo-ignores-ids-stored-in-flight', DS,
     "                if oid not in self._issued_oids and \\\n                        oid not in self._stored_oids:",
     "                if oid not in self._issued_oids:"),
    ('C20', 'mapping-new-oid-without-lock', MS,
     "    @ZODB.utils.locked(opened)\n    def new_oid(self):",
     "    def new_oid(self):"),
    ('C16', 'demo-pack-flag-unset-for-given-changes', DS,
     "        else:\n            self._temporary_changes = False\n",
     "        else:\n"),
    ('C16', 'demo-pack-also-packs-base', DS,
     "        try:\n            self.changes.pack(t, referencesf, gc=False)",
     "        try:\n            getattr(self.base, 'pack', lambda *a, **k: 0)(t, referencesf, gc=False)\n            self.changes.pack(t, referencesf, gc=False)"),
    ('C16', 'demo-loadbefore-ignores-base', DS,
     "        if result is None:\n            # The oid *was* in the changes, but there aren't any\n            # earlier records. Maybe there are in the base.\n            try:\n                result = self.base.loadBefore(oid, tid)",
     "        if result is None:\n            # The oid *was* in the changes, but there aren't any\n            # earlier records. Maybe there are in the base.\n            try:\n                result = None"),
    ('C16', 'demo-end-tid-not-joined', DS,
     "                    result = result[:2] + (\n                        end_tid if end_tid != maxtid else None,\n                    )",
     "                    pass"),
    ('C16', 'demo-store-writes-base', DS,
     "        else:\n            self.changes.store(oid, serial, data, '', transaction)\n\n    def storeBlob",
     "        else:\n            (self.base if oid[-1:] == b'\\x01' else self.changes).store(oid, serial, data, '', transaction)\n\n    def storeBlob"),
    ('C16', 'demo-gettid-changes-only', DS,
     "        except ZODB.POSException.POSKeyError:\n            return self.base.getTid(oid)",
     "        except ZODB.POSException.POSKeyError:\n            raise"),
    ('C16', 'demo-iterator-changes-only', DS,
     "        yield from self.base.iterator(start, end)\n",
     ""),
    ('C16', 'demo-history-misses-base', DS,
     "        size -= len(r)\n        if size:",
     "        size -= len(r)\n        if size and not r:"),
    ('C16', 'demo-storeblob-no-serial-check', DS,
     "        if old != oldserial:\n            raise ZODB.POSException.ConflictError(\n                oid=oid, serials=(old, oldserial), data=data)",
     "        if False:\n            raise ZODB.POSException.ConflictError(\n                oid=oid, serials=(old, oldserial), data=data)"),
    ('C16', 'demo-loadblob-no-base-fallback', DS,
     "            try:\n                return self.base.loadBlob(oid, serial)\n            except AttributeError:",
     "            try:\n                raise ZODB.POSException.POSKeyError(oid, serial)\n            except AttributeError:"),
    ('C16', 'demo-opencommitted-no-base-fallback', DS,
     "            try:\n                return self.base.openCommittedBlobFile(oid, serial, blob)\n            except AttributeError:",
     "            try:\n                raise ZODB.POSException.POSKeyError(oid, serial)\n            except AttributeError:"),
    ('C17', 'copy-drops-status', BS,
     "        dest.tpc_begin(transaction, tid, transaction.status)",
     "        dest.tpc_begin(transaction, tid)"),
    ('C17', 'iterator-uncreate-as-empty', FS,
     "                    # instead of a pickle to indicate this.\n                    data = None",
     "                    # instead of a pickle to indicate this.\n                    data = b''"),
    # (mutants that only make fsrecover lose transactions *after* the damage
    # -- giving up at the first error, a scan that overshoots -- break no
    # stated property and are not listed)
    ('C17', 'recover-length-check-off-by-one', RC,
     "    if pos + (tl + 8) > file_size:\n        error(\"bad transaction length at %s\", pos)",
     "    if pos + (tl + 8) >= file_size:\n        error(\"bad transaction length at %s\", pos)"),
    ('C17', 'recover-never-gives-up-scanning', RC,
     "        data = f.read(8096)\n        if not data:\n            return 0",
     "        data = f.read(8096)\n        if not data:\n            pos = 4\n            continue"),
    ('C17', 'record-iterator-short-data', FS,
     "            if h.plen:\n                data = self._file.read(h.plen)\n            else:\n                if h.back == 0:",
     "            if h.plen:\n                data = self._file.read(h.plen)[:-1] + b'!'\n            else:\n                if h.back == 0:"),
    ('C10', 'resolver-args-swapped', CR,
     "        resolved = resolve(old, committed, newstate)",
     "        resolved = resolve(committed, old, newstate)"),
    ('C10', 'resolved-oid-not-reported', FS,
     "                    data = self.tryToResolveConflict(oid, committed_tid,\n                                                     oldserial, data)\n                    self._resolved.append(oid)",
     "                    data = self.tryToResolveConflict(oid, committed_tid,\n                                                     oldserial, data)"),
    ('C10', 'old-state-from-committed-serial', CR,
     "        oldData = self.loadSerial(oid, oldSerial)",
     "        oldData = self.loadSerial(oid, committedSerial)"),
    ('C10', 'resolver-exception-commits-new', CR,
     "        logger.exception(\n            \"Unexpected error while trying to resolve conflict on %s\", klass)\n\n    raise ConflictError",
     "        logger.exception(\n            \"Unexpected error while trying to resolve conflict on %s\", klass)\n        return newpickle\n\n    raise ConflictError"),
    ('C10', 'writer-keeps-resolved-copy', CN,
     "                if obj is not None:\n                    del obj._p_changed  # transition from changed to ghost",
     "                if obj is not None:\n                    pass"),
    ('C10', 'demo-resolved-not-reported', DS,
     "            self.changes.store(oid, old, rdata, '', transaction)\n            self._resolved.append(oid)",
     "            self.changes.store(oid, old, rdata, '', transaction)"),
    ('C10', 'weak-references-dropped', CR,
     "def persistent_id(object):\n    if getattr(object, '__class__', 0) is not PersistentReference:\n        return None\n    return object.data",
     "def persistent_id(object):\n    if getattr(object, '__class__', 0) is not PersistentReference:\n        return None\n    return object.data if not object.weak else object.oid"),
    ('C11', 'finish-keeps-objects-dirty', CN,
     "                if obj is not None and obj._p_changed is not None:\n                    obj._p_changed = 0\n                    obj._p_serial = serial",
     "                if obj is not None and obj._p_changed is not None:\n                    obj._p_serial = serial"),
    ('C11', 'finish-wrong-serial', CN,
     "                if obj is not None and obj._p_changed is not None:\n                    obj._p_changed = 0\n                    obj._p_serial = serial",
     "                if obj is not None and obj._p_changed is not None:\n                    obj._p_changed = 0"),
    ('C11', 'abort-keeps-modified-state', CN,
     "                # reread is pretty low.\n\n                self._cache.invalidate(oid)",
     "                # reread is pretty low.\n\n                pass"),
    # (dropping the _added loop of tpc_abort is unobservable: abort()
    # runs first for a connection that has not voted and empties _added)
    # (both tests: since 901b159 the primary also looks at every connection
    # of its group, itself included)
    ('C11', 'close-while-joined-allowed', CN,
     ("        if not self._needs_to_join:\n            # We're currently joined to a transaction.\n            raise ConnectionStateError(",
      "                if not connection._needs_to_join:\n                    raise ConnectionStateError("),
     ("        if False:\n            # We're currently joined to a transaction.\n            raise ConnectionStateError(",
      "                if False:\n                    raise ConnectionStateError(")),
    ('C11', 'invalidate-creating-keeps-owner', CN,
     "                if o._p_changed:\n                    o._p_changed = False\n                del o._p_jar\n                del o._p_oid\n\n    def tpc_vote",
     "                if o._p_changed:\n                    o._p_changed = False\n\n    def tpc_vote"),
    ('C12', 'rollback-keeps-created', CN,
     "        # Invalidate objects created *after* the savepoint.\n        self._invalidate_creating(unadded)",
     "        # Invalidate objects created *after* the savepoint.\n        pass"),
    ('C12', 'rollback-does-not-reset-store', CN,
     "        index = src.index\n        src.reset(*state)\n        self._cache.invalidate(index)",
     "        index = src.index\n        self._cache.invalidate(index)"),
    ('C12', 'rollback-keeps-cache', CN,
     "        index = src.index\n        src.reset(*state)\n        self._cache.invalidate(index)",
     "        index = src.index\n        src.reset(*state)"),
    ('C12', 'reset-shares-index', CN,
     "        self.index = index.copy()\n",
     "        self.index = index\n"),
    ('C12', 'abort-leaves-savepoint-store', CN,
     "            self._abort(self._savepoint_storage.creating)\n            self._abort_savepoint()",
     "            self._abort(self._savepoint_storage.creating)"),
    ('C13', 'proxy-pack-keeps-all-files', BL,
     "                try:\n                    self.loadSerial(oid, serial)\n                except POSKeyError:\n                    remove_committed(filepath)\n\n            if not os.listdir(oid_path):",
     "                try:\n                    self.loadSerial(oid, serial)\n                except POSKeyError:\n                    pass\n\n            if not os.listdir(oid_path):"),
    ('C13', 'proxy-undo-copies-undone-revision', BL,
     "                    orig_fn = self.fshelper.getBlobFilename(oid, serial_before)",
     "                    orig_fn = self.fshelper.getBlobFilename(oid, serial_id)"),
    ('C13', 'consume-failure-loses-previous-data', BL,
     "            if previous_uncommitted:\n                os.rename(target_aside, target)\n                self._p_blob_uncommitted = target",
     "            if previous_uncommitted:\n                self._p_blob_uncommitted = None"),
    ('C13', 'demo-blobs-stored-in-base-dir', DS,
     "            blob_dir = tempfile.mkdtemp('.demoblobs')",
     "            blob_dir = self.base.fshelper.base_dir"),
    ('C15', 'at-is-exclusive', DBF,
     "        before = at.laterThan(at).raw()",
     "        before = at.raw()"),
    ('C15', 'historical-load-current', MV,
     "        r = self._storage.loadBefore(oid, self._before)\n        if r is None:\n            raise POSException.POSKeyError(oid)",
     "        r = self._storage.loadBefore(oid, b'\\x7f' + b'\\xff' * 7)\n        if r is None:\n            raise POSException.POSKeyError(oid)"),
    ('C15', 'historical-commit-allowed', CN,
     "        if self.before is not None:\n            raise ReadOnlyHistoryError()",
     "        if False:\n            raise ReadOnlyHistoryError()"),
    ('C15', 'future-not-refused', DBF,
     "            raise ValueError(\n                'cannot open an historical connection in the future.')",
     "            pass"),
    ('C15', 'historical-pool-wrong-key', DBF,
     "                result = self.historical_pool.pop(before)\n                if result is None:",
     "                result = self.historical_pool.pop(max(self.historical_pool.pools) if self.historical_pool.pools else before)\n                if result is None:"),
    ('C15', 'historical-new-oid-allowed', MV,
     "    new_oid = pack = store = read_only_writer\n",
     "    pack = store = read_only_writer\n\n    def new_oid(self):\n        return self._storage.new_oid()\n"),
    ('C15', 'datetime-drops-microseconds', DBF,
     "    args = utc_struct[:5] + (utc_struct[5] + dt.microsecond / 1000000.0,)",
     "    args = utc_struct[:5] + (utc_struct[5],)"),
    ('C13', 'abort-keeps-blob-files', BL,
     "            clean = self.fshelper.getBlobFilename(oid, serial)\n            if os.path.exists(clean):\n                remove_committed(clean)",
     "            clean = self.fshelper.getBlobFilename(oid, serial)"),
    ('C13', 'undo-does-not-copy-blob', FS,
     "                            self._blob_storeblob(h.oid, self._tid, tmp)",
     "                            os.remove(tmp)"),
    ('C13', 'append-writes-committed-file', BL,
     "                if self._p_blob_uncommitted is None:\n                    # Create a new working copy\n                    self._create_uncommitted_file()\n                    result = BlobFile(self._p_blob_uncommitted, mode, self)\n                    if self._p_blob_committed:",
     "                if self._p_blob_uncommitted is None and self._p_blob_committed and mode == 'a':\n                    os.chmod(self._p_blob_committed, 0o644)\n                    result = BlobFile(self._p_blob_committed, mode, self)\n                elif self._p_blob_uncommitted is None:\n                    # Create a new working copy\n                    self._create_uncommitted_file()\n                    result = BlobFile(self._p_blob_uncommitted, mode, self)\n                    if self._p_blob_committed:"),
    ('C13', 'pack-keeps-removed-blob-files', FS,
     "                handle_file(path)\n                assert not os.path.exists(path)",
     "                pass"),
    ('C13', 'finish-forgets-nothing', BL,
     "        \"\"\"Blob cleanup to be called from subclass tpc_finish\n        \"\"\"\n        self.dirty_oids = []",
     "        \"\"\"Blob cleanup to be called from subclass tpc_finish\n        \"\"\"\n        pass"),
    ('C13', 'copy-fallback-truncates', BL,
     "        with open(f1, 'rb') as file1:\n            with open(f2, 'wb') as file2:\n                utils.cp(file1, file2)\n        remove_committed(f1)",
     "        with open(f1, 'rb') as file1:\n            with open(f2, 'wb') as file2:\n                utils.cp(file1, file2, 5)\n        remove_committed(f1)"),
    ('C18', 'backup-copies-uncommitted-tail', RZ,
     "    pos = fs.getSize()\n    # Save the storage index into the repository",
     "    pos = os.path.getsize(options.file)\n    # Save the storage index into the repository"),
    ('C18', 'incremental-copies-uncommitted-tail', RZ,
     "    pos = fs.getSize()\n    log('writing index')",
     "    pos = os.path.getsize(options.file)\n    log('writing index')"),
    ('C18', 'pack-not-detected', RZ,
     "        if reposum == srcsum_backedup:\n            log('doing incremental, starting at: %s', reposz)",
     "        if True:\n            log('doing incremental, starting at: %s', reposz)"),
    ('C18', 'recover-ignores-date', RZ,
     "        if root <= when:\n            needed.append(fname)",
     "        if True:\n            needed.append(fname)"),
    ('C18', 'verify-skips-checksum', RZ,
     "            elif not options.quick:\n                if actual_sum != sum:",
     "            elif not options.quick:\n                if False:"),
    ('C18', 'verify-skips-size', RZ,
     "            if size != expected_size:\n                raise VerificationFail(\n                    \"%s is %d bytes%s, should be %d bytes\" % (\n                        filename, size, when_uncompressed, expected_size))",
     "            if False:\n                pass"),
    ('C18', 'killold-removes-newest-incrementals', RZ,
     "    recentfull = full.pop(-1)\n    deletable.remove(recentfull)",
     "    recentfull = full.pop(0)\n    deletable.remove(recentfull)"),
    ('C18', 'recover-no-index', RZ,
     "                shutil.copyfile(source_index, target_index)",
     "                pass"),
    ('C18', 'verify-ignores-orphan-dat', RZ,
     "                os.path.join(options.repository, fn) > datfile:\n            raise VerificationFail(",
     "                os.path.join(options.repository, fn) > datfile and False:\n            raise VerificationFail("),
    ('C18', 'gzip-last-chunk-dropped', RZ,
     "    def func(data):\n        sum.update(data)\n        ofp.write(data)\n\n    ndone = dofile(func, ifp, n)",
     "    def func(data):\n        sum.update(data)\n        ofp.write(data if not options.gzip or len(data) == READCHUNK else data[:-1])\n\n    ndone = dofile(func, ifp, n)"),
]


def apply(src, rel, old, new):
    p = os.path.join(src, rel)
    with open(p) as f:
        s = f.read()
    if not isinstance(old, tuple):
        old, new = (old,), (new,)
    for o, n in zip(old, new):
        if s.count(o) != 1:
            raise RuntimeError('mutant anchor occurs %d times in %s'
                               % (s.count(o), rel))
        s = s.replace(o, n)
    with open(p, 'w') as f:
        f.write(s)


def run_mutant(prop, name, rel, old, new, runs=None):
    scratch = '/dev/shm/zsim-mut-%d-%s' % (os.getpid(), name)
    shutil.rmtree(scratch, ignore_errors=True)
    try:
        if os.environ.get('ZSIM_MUTANTS_FROM_HEAD'):
            # the committed tree (so that work in /repo's working tree --
            # applying seeded patches -- does not leak into the mutants)
            os.makedirs(scratch)
            ar = subprocess.run(['git', '-C', '/repo', 'archive', 'HEAD',
                                 'src'], stdout=subprocess.PIPE, check=True)
            subprocess.run(['tar', '-x', '-C', scratch], input=ar.stdout,
                           check=True)
        else:
            shutil.copytree('/repo/src', os.path.join(scratch, 'src'))
        apply(os.path.join(scratch, 'src'), rel, old, new)
        env = dict(os.environ, ZSIM_REPO_SRC=os.path.join(scratch, 'src'),
                   ZSIM_EVIDENCE_DIR=os.path.join(scratch, 'evidence'))
        cmd = [os.path.join(runner.ROOT, 'bin', 'zsim'), 'check', prop,
               '--tier', 'quick']
        if runs:
            cmd += ['--runs', str(runs)]
        t0 = time.time()
        p = subprocess.run(cmd, env=env, stdout=subprocess.PIPE,
                           stderr=subprocess.STDOUT, timeout=3600)
        out = p.stdout.decode()
        caught = p.returncode == 1 and 'VIOLATION property=%s' % prop in out
        first = [ln for ln in out.splitlines() if ln.startswith('  ')][:1]
        return caught, p.returncode, time.time() - t0, (first or [''])[0]
    finally:
        shutil.rmtree(scratch, ignore_errors=True)


def main(cids):
    missed = 0
    only = [x for x in os.environ.get('ZSIM_MUTANTS_ONLY', '').split(',')
            if x]
    for m in MUTANTS:
        if cids and m[0] not in cids:
            continue
        if only and m[1] not in only:
            continue
        try:
            runner.load_check(m[0])
        except ImportError:
            continue
        caught, rc, dt, first = run_mutant(*m)
        print('mutant %s/%-32s %s (exit %d, %.0fs) %s'
              % (m[0], m[1], 'caught' if caught else 'MISSED', rc, dt,
                 first.strip()[:110]))
        sys.stdout.flush()
        if not caught:
            missed += 1
    return 1 if missed else 0
