"""C06 -- undo restores the pre-transaction state or changes nothing
(DESIGN §6 C06)."""

import random

from ZODB.POSException import UndoError

from .. import ctx
from .. import gen as G
from ..hist import Driver
from ..hist import Violation
from ..model import UNCREATE
from ..model import undo_id
from ..sweep import sweep

ID = 'C06'
LEVEL = 'exploration'
RULE = ('6 % of the runs: a scheduled world (C02/C03 machinery) in which a '
        'client commits several cells in one transaction and undoes it '
        'while readers with partly filled caches cross their boundaries, '
        'with line-level pre-emption inside the MVCC adapter and the '
        'snapshot oracle.  Otherwise: '
        'one run = one seeded history on FileStorage (classes without '
        'resolver, with a merging resolver, with a failing resolver) in '
        'which undo is the dominant operation: latest and older '
        'transactions, with intervening unrelated / byte-equal / mergeable '
        '/ conflicting changes, creations, undos of undos, several ids in '
        'one transaction, arbitrary and packed ids, before and after pack '
        'and reopen; every undo is predicted by the reference model '
        '(success with exactly these records, or UndoError with nothing '
        'changed) and followed by direct state checks and, for a seeded '
        'subset, by undoing the undo; a DB-level arm drives DB.undo / '
        'undoMultiple with two connections; non-trivial = >= 1 undo '
        'committed or refused; distinct = outcome sequence')
RULE += ('  '
         'Later additions to the scheduled world (10 % of the runs): '
         'undos that must merge (the undone transaction is not the '
         'latest), bystander tasks asking the storage itself, '
         'line-level pre-emption inside the file storage as well. ')
BUDGET = {'quick': {'runs': 8000, 'wall': 300, 'chunk': 25},
          'thorough': {'runs': 500000, 'wall': 1200, 'chunk': 100}}
ASSUMPTIONS = [
    'where the property is silent (undo while the current state is an '
    'un-creation other than the undone record) refusal and the '
    'state-restoring outcome are both accepted',
    'undo of a transaction that itself holds several records of one oid '
    '(an earlier overlapping multi-undo) is not generated',
]
SHRINK = ['ops', 'scripts']
PATH = '/sim/Data.fs'


def gen_sched(seed, tier):
    """"Other connections see it at their next boundary", under the
    scheduler: a client commits several cells in one transaction and undoes
    it while readers with partly filled caches cross their boundaries;
    line-level pre-emption inside the MVCC adapter.  (The worlds and
    snapshot oracles of C02/C03.)"""
    from .. import mvcc
    from .. import seams
    r = random.Random(seed)
    ncell = r.choice((2, 2, 3))
    merge = r.random() < 0.5
    writer = []
    for _ in range(r.randint(1, 3)):
        writer.append({'steps': [['w', k] for k in
                                 r.sample(range(ncell), r.randint(2, ncell))]})
        if merge:
            # the undone transaction is not the latest one: the undo has
            # to read the current state and merge
            writer.append({'steps': [['w', k] for k in
                                     r.sample(range(ncell),
                                              r.randint(1, ncell))]})
            writer.append({'t': 'undo', 'k': -2})
            continue
        writer.append({'t': 'undo', 'k': -1})
        if r.random() < 0.3:
            writer.append({'t': 'undo', 'k': -1})       # undo the undo
    scripts = [writer]
    for _ in range(r.choice((1, 2, 2))):
        sc = []
        for _ in range(r.randint(3, 7)):
            ks = r.sample(range(ncell), r.randint(1, ncell))
            sc.append({'steps': [['r', k] for k in ks]})
        scripts.append(sc)
    sch = mvcc.sched_config(r)
    # line-level pre-emption inside the MVCC adapter, or inside the file
    # storage (the undo reads through the storage's own file handle, as do
    # the bystanders' calls)
    sch['fine'] = {'p': r.choice((0.1, 0.3, 0.5)),
                   'prefix': seams.repo_src() + r.choice(
                       ('/ZODB/mvccadapter', '/ZODB/FileStorage/'))}
    return {'arm': 'sched', 'kind': 'file', 'ncell': ncell,
            'cache_size': 400, 'pool_size': 7,
            'bufsize': r.choice((64, 8192)),
            # bystanders asking the storage itself (its own file handle)
            'pokers': mvcc.gen_pokers(r, ncell) if r.random() < 0.7 else [],
            'classes': ['Merge' if merge else 'Cell'] * ncell,
            'explicit': [r.random() < 0.3 for _ in scripts],
            'sched': sch, 'tick': 0.37, 'tier': tier, 'scripts': scripts}


def gen(seed, tier):
    r = random.Random(seed)
    if r.random() < 0.1:
        return gen_sched(ctx.subseed(seed, 'sched'), tier)
    arm = 'db' if r.random() < 0.25 else 'storage'
    if arm == 'db':
        from . import c06db
        return c06db.gen(seed, tier)
    noids = r.choice((1, 2, 3, 5))
    n = r.randint(3, 12) if tier == 'quick' else r.randint(3, 16)
    ops = []
    # an object keeps its class (objects that change class between
    # revisions are not generated)
    cls_of = [r.choice(('Cell', 'Merge', 'Merge', 'Boom'))
              for _ in range(noids)]
    for _ in range(n):
        x = r.random()
        if x < 0.45:
            op = G.gen_txn(r, noids, 'file', aborts=False,
                           classes=('Cell', 'Merge', 'Merge', 'Boom'),
                           refs=False, sizes=(0, 0, 10, 200))
            for rec in op['recs']:
                rec['cls'] = cls_of[rec['o'] % noids]
                if rec.get('serial') in ('bogus', 'zero', 'stale2'):
                    rec.pop('serial')
            ops.append(op)
        elif x < 0.80:
            k = r.choice((1, 1, 1, 2, 3))
            if r.random() < 0.7:
                tg = [-1 - r.randrange(4) for _ in range(k)]
            else:
                tg = [r.randrange(32) for _ in range(k)]
            op = {'op': 'undo', 'targets': tg}
            if r.random() < 0.35:
                op['redo'] = True
            if r.random() < 0.05:
                op['end'] = 'abortV'
            ops.append(op)
        elif x < 0.84:
            ops.append({'op': 'delete', 'o': r.randrange(noids)})
        elif x < 0.90:
            ops.append({'op': 'reopen', 'drop_index': r.random() < 0.3})
        elif x < 0.96:
            ops.append({'op': 'pack',
                        'where': r.choice(('at', 'between', 'after_all',
                                           'just_after')),
                        'at': r.randrange(16)})
        elif x < 0.98:
            ops.append({'op': 'badundo'})
        else:
            ops.append({'op': 'clock', 'mode': 'stall', 'n': 4})
    # equal-bytes intervening change: a transaction writing the same bytes
    # cannot be produced by the token scheme, but undo-of-undo produces
    # byte-equal states (copies), which is the case the storage tests
    return {'arm': 'storage', 'ops': ops,
            'bufsize': r.choice((64, 512, 8192, 65536)),
            'tick': r.choice((0.37, 1e-7, 45.0)), 'tier': tier}


def state_of(model, oids):
    out = {}
    for oid in oids:
        cur = model.current(oid)
        if cur is None or cur[1].kind == UNCREATE:
            out[oid] = None
        else:
            out[oid] = cur[1].data if not isinstance(cur[1].data, tuple) \
                else repr(cur[1].data)
    return out


def run(case):
    if case.get('arm') == 'sched':
        from . import c03
        res = c03.run(dict(case, arm='conn'))
        res['stats']['arm:sched'] = 1
        res['stats'].pop('arm:conn', None)
        return res
    if case.get('arm') == 'db':
        from . import c06db
        return c06db.run(case)
    sim = ctx.activate(ctx.Sim(case['seed'], bufsize=case['bufsize'],
                               clock={'tick': case['tick']}))
    d = Driver(sim, 'file', path=PATH, opts={'pack_gc': False})
    stats = {}
    nundo = 0
    try:
        for op in case['ops']:
            if op['op'] == 'badundo':
                # an id that names no transaction must be refused and
                # change nothing
                from ZODB.Connection import TransactionMetaData
                from ZODB.utils import p64
                t = TransactionMetaData(b'', b'', {})
                d.st.tpc_begin(t)
                try:
                    d.st.undo(undo_id(p64(424242)), t)
                except UndoError:
                    pass
                else:
                    d.flag('undo-outcome', 'undo of an unknown id accepted')
                d.st.tpc_abort(t)
                d.outcomes.append('badundo')
                continue
            if op['op'] != 'undo':
                d.execute(op)
                continue
            m0 = d.model
            before_txns = list(m0.txns)
            all_oids = sorted(m0.oids())
            s_before = state_of(m0, all_oids)
            out = d.execute(op)
            if out in ('commit', 'undo-refused', 'undo-missed'):
                nundo += 1
            if out == 'undo-refused':
                # nothing changed
                if d.model.txns != before_txns:
                    d.flag('harness', 'model changed on refusal')
                bad = sweep(d.st, d.model, d.caps, tag='after refused undo: ')
                for name, b in bad[:3]:
                    d.flag('undo-refusal-changed:' + name, b)
                continue
            if out != 'commit':
                continue
            # direct check of the property's first sentence, independent of
            # the model's undo planner: an object whose *latest* change is
            # the undone transaction has the state it had just before it
            ut = d.model.txns[-1]
            tids = []
            for k in op['targets']:
                if d.commit_log[:-1]:
                    tid = d.commit_log[:-1][k % len(d.commit_log[:-1])]
                    if tid not in tids:
                        tids.append(tid)
            if len(tids) == 1:
                tt = m0.txn(tids[0])
                for rec in (tt.recs if tt is not None else ()):
                    cur = m0.current(rec.oid)
                    if cur is None or cur[0] != tids[0]:
                        continue
                    pre = m0.state_before(rec.oid, tids[0])
                    want = None if (pre is None or pre[1].kind == UNCREATE) \
                        else pre[1].data
                    got = None
                    try:
                        got = d.st.load(rec.oid)[0]
                    except KeyError:
                        got = None
                    if got != want:
                        d.flag('undo-not-previous-state', 'after undoing '
                               '%r object %r does not have the state it had '
                               'immediately before it' % (tids[0], rec.oid))
            # all other objects untouched
            touched = {r.oid for r in ut.recs}
            s_after = state_of(d.model, all_oids)
            for oid in all_oids:
                if oid not in touched and s_after[oid] != s_before[oid]:
                    d.flag('undo-touched-other', 'object %r changed although '
                           'the undone transactions did not write it' % oid)
            d.full_sweep('after undo: ')
            if op.get('redo'):
                # an undo is an ordinary transaction: undoing it restores
                # the undone state
                out2 = d.execute({'op': 'undo', 'targets': [-1]})
                stats['redo:' + out2] = stats.get('redo:' + out2, 0) + 1
                if out2 == 'commit':
                    s_redo = state_of(d.model, all_oids)
                    for oid in all_oids:
                        if s_redo[oid] != s_before[oid]:
                            d.flag('redo-not-restoring', 'undoing the undo '
                                   'did not restore object %r' % oid)
                            break
                elif out2 == 'undo-refused':
                    d.flag('redo-refused', 'undoing an undo transaction '
                           'right after it was committed was refused')
        d.full_sweep('end: ')
        d.check_file('end: ')
        d.execute({'op': 'reopen'})
    except Violation:
        pass
    finally:
        try:
            d.close()
        except Exception:       # noqa: B902
            pass
    stats['sim_time_s'] = sim.clock.elapsed()
    stats['commits'] = len(d.model.txns)
    stats['arm:storage'] = 1
    for o in d.outcomes:
        k = 'outcome:' + o.split(':')[0]
        stats[k] = stats.get(k, 0) + 1
    return {
        'violations': [{'oracle': o, 'detail': x} for o, x in d.viol[:20]],
        'stats': stats,
        'keys': ['s|' + ','.join(d.outcomes)] if nundo else [],
        'evals': 1,
        'sample': {'arm': 'storage', 'ops': case['ops'],
                   'outcomes': d.outcomes},
        'digest': sim.digest(d.outcomes, d.viol),
    }


LEVEL_TEXT = ('seeded search over undo-heavy histories on real FileStorage '
              'over the simulated disk: every undo (single, multiple, of '
              'undos, of creations, with intervening mergeable or '
              'conflicting changes, before/after pack and reopen) is '
              'predicted by the reference model, verified by the full query '
              'sweep and by direct pre-state / untouched-objects / redo '
              'checks; a DB-level arm checks DB.undo through the MVCC '
              'adapter with a second connection holding cached copies.')
LEVEL_NOTE = ('trusted: reference model incl. its undo planner (the direct '
              'checks do not depend on the planner); bounded histories '
              '(<= 16 ops, <= 5 oids)')
TECHNIQUE = ('deterministic simulation: seeded undo histories with pack and '
             'restart, lock-step reference model plus direct state oracles')
