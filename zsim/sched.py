"""sched -- seeded cooperative scheduling of real threads (baton passing),
and the lock classes ZODB sees.

Exactly one task thread runs at any time.  At a yield point the running task
draws the next task from the run's PRNG (or from a recorded schedule) and
hands the baton over directly.  A task that cannot proceed registers a
predicate and is considered runnable again when the predicate holds.
"""

import sys
import threading
import traceback

from . import ctx
from .ctx import SimAbort
from .ctx import SimDeadlock

NEW, RUNNABLE, BLOCKED, DONE = 'new', 'runnable', 'blocked', 'done'

HANG_TIMEOUT = 400      # real seconds; a harness bug guard, never a verdict


class HarnessHang(Exception):
    pass


class Task:

    def __init__(self, idx, name, fn):
        self.idx = idx
        self.name = name
        self.fn = fn
        self.thread = None
        self.baton = threading.Semaphore(0)
        self.state = NEW
        self.pred = None
        self.site = None
        self.timeout = None
        self.timed_out = False
        self.result = None
        self.exc = None
        self.tb = None
        self.aborted = False

    def __repr__(self):
        return '<Task %d %s %s>' % (self.idx, self.name, self.state)


class Sched:

    def __init__(self, sim, strategy='random', p_stay=0.5, max_steps=20000,
                 schedule=None, pct_depth=3, est_steps=600, fine=None):
        self.sim = sim
        self.rng = sim.rng('sched')
        self.strategy = strategy
        self.p_stay = p_stay
        self.max_steps = max_steps
        self.tasks = []
        self.current = None
        self.steps = 0
        self.switches = 0
        self.trace = []
        self.replay = list(schedule) if schedule is not None else None
        self.replay_pos = 0
        self.aborting = False
        self.capped = False
        self.deadlock = None
        self._main = threading.Semaphore(0)
        self.fine = fine            # None or dict(p=..., prefix=...)
        self.pct_depth = pct_depth
        self.est_steps = est_steps
        self._prio = {}
        self._change_points = set()

    # -- construction ----------------------------------------------------

    def spawn(self, name, fn):
        t = Task(len(self.tasks), name, fn)
        self.tasks.append(t)
        return t

    # -- choosing --------------------------------------------------------

    def _candidates(self):
        out = []
        for t in self.tasks:
            if t.state == RUNNABLE or t.state == NEW:
                out.append(t)
            elif t.state == BLOCKED and t.pred is not None and t.pred():
                out.append(t)
        return out

    def _pick(self, cur=None):
        """Return the task to run next (None if nothing can run)."""
        cands = self._candidates()
        if not cands:
            timed = [t for t in self.tasks
                     if t.state == BLOCKED and t.timeout is not None]
            if not timed:
                return None
            t = timed[0] if len(timed) == 1 else \
                timed[self._draw(len(timed), [x.idx for x in timed], None)]
            self.sim.clock.advance(t.timeout)
            t.timed_out = True
            return t
        if len(cands) == 1:
            return cands[0]
        idxs = [t.idx for t in cands]
        i = self._draw(len(cands), idxs, cur)
        return cands[i]

    def _draw(self, n, idxs, cur):
        """Choose among n candidates; record the chosen task index."""
        if self.replay is not None:
            i = None
            if self.replay_pos < len(self.replay):
                want = self.replay[self.replay_pos]
                self.replay_pos += 1
                if want in idxs:
                    i = idxs.index(want)
            if i is None:
                if cur is not None and cur.idx in idxs:
                    i = idxs.index(cur.idx)
                else:
                    i = 0
        elif self.strategy == 'pct':
            if self.steps in self._change_points and cur is not None:
                self._prio[cur.idx] = min(self._prio.values()) - 1
            best = max(idxs, key=lambda k: self._prio.get(k, 0))
            i = idxs.index(best)
        elif (self.strategy == 'sticky' and cur is not None
              and cur.idx in idxs and self.rng.random() < self.p_stay):
            i = idxs.index(cur.idx)
        else:
            i = self.rng.randrange(n)
        self.trace.append(idxs[i])
        return i

    # -- switching -------------------------------------------------------

    def _handoff(self, cur, nxt):
        self.switches += 1
        self.current = nxt
        nxt.baton.release()
        cur.baton.acquire()
        if self.aborting:
            raise SimAbort()

    def _cap(self):
        self.capped = True
        self.aborting = True
        raise SimAbort()

    def yield_point(self, kind, what=None, can_raise=True):
        if self.aborting:
            if can_raise:
                raise SimAbort()
            return
        cur = self.current
        if cur is None or threading.current_thread() is not cur.thread:
            return
        self.steps += 1
        if self.steps > self.max_steps:
            if can_raise:
                self._cap()
            return
        self.sim.event('y', cur.idx, kind, what)
        nxt = self._pick(cur)
        if nxt is not cur and nxt is not None:
            if nxt.state == BLOCKED:
                pass        # it re-checks its predicate itself
            try:
                self._handoff(cur, nxt)
            except SimAbort:
                if can_raise:
                    raise

    def wait_for(self, pred, site, timeout=None):
        """Block the current task until pred() holds.  Returns False on
        (simulated) time-out."""
        cur = self.current
        while not pred():
            if self.aborting:
                raise SimAbort()
            self.steps += 1
            if self.steps > self.max_steps:
                self._cap()
            cur.state = BLOCKED
            cur.pred = pred
            cur.site = site
            cur.timeout = timeout
            cur.timed_out = False
            self.sim.event('b', cur.idx, site)
            nxt = self._pick(cur)
            if nxt is None:
                # nobody can run: deadlock.  Wake main and park.
                self._main.release()
                cur.baton.acquire()
                cur.state = RUNNABLE
                raise SimAbort()
            if nxt is cur:
                cur.state = RUNNABLE
                cur.pred = None
                if cur.timed_out:
                    return False
                continue
            try:
                self._handoff(cur, nxt)
            finally:
                cur.state = RUNNABLE
                cur.pred = None
            if cur.timed_out:
                return False
        return True

    # -- running ---------------------------------------------------------

    def _tracer(self, frame, event, arg):
        fine = self.fine
        fn = frame.f_code.co_filename
        if not fn.startswith(fine['prefix']) or '/tests/' in fn:
            return None
        q = fine.get('qual')
        if q and not frame.f_code.co_qualname.startswith(q):
            return None
        return self._line_tracer

    def _line_tracer(self, frame, event, arg):
        if event == 'line' and not self.aborting:
            if self.rng_fine.random() < self.fine['p']:
                self.yield_point('line', (frame.f_code.co_name,
                                          frame.f_lineno))
        return self._line_tracer

    def _run_task(self, t):
        t.baton.acquire()
        if self.aborting:
            t.state = DONE
            t.aborted = True
            self._main.release()
            return
        t.state = RUNNABLE
        if self.fine:
            sys.settrace(self._tracer)
        try:
            t.result = t.fn()
        except SimAbort:
            t.aborted = True
        except BaseException as e:      # noqa: B902 -- recorded, not hidden
            t.exc = e
            t.tb = traceback.format_exc()
        finally:
            if self.fine:
                sys.settrace(None)
            t.state = DONE
            self.sim.event('d', t.idx)
            if self.aborting:
                self._main.release()
            else:
                nxt = self._pick(None)
                if nxt is None:
                    self._main.release()
                else:
                    self.current = nxt
                    nxt.baton.release()

    def _wait_main(self):
        if not self._main.acquire(timeout=HANG_TIMEOUT):
            import faulthandler
            faulthandler.dump_traceback(file=sys.stderr)
            raise HarnessHang('scheduler made no progress for %ds'
                              % HANG_TIMEOUT)

    def run(self):
        sim = self.sim
        if self.strategy == 'pct':
            r = self.rng
            order = list(range(len(self.tasks)))
            r.shuffle(order)
            self._prio = {k: p + 1 for p, k in enumerate(order)}
            self._change_points = {r.randrange(max(1, self.est_steps))
                                   for _ in range(self.pct_depth)}
        if self.fine:
            self.rng_fine = sim.rng('sched-fine')
        for t in self.tasks:
            t.thread = threading.Thread(target=self._run_task, args=(t,),
                                        name='zsim-%d' % t.idx, daemon=True)
            t.thread.start()
        sim.sched = self
        try:
            first = self._pick(None)
            if first is not None:
                self.current = first
                first.baton.release()
                self._wait_main()
            unfinished = [t for t in self.tasks if t.state != DONE]
            if unfinished and not self.capped:
                self.deadlock = [(t.name, t.state, repr(t.site))
                                 for t in unfinished]
            self.aborting = True
            for t in unfinished:
                if t.state == DONE:
                    continue
                self.current = t
                t.baton.release()
                self._wait_main()
            for t in self.tasks:
                t.thread.join(HANG_TIMEOUT)
                if t.thread.is_alive():
                    raise HarnessHang('task thread did not finish: %r' % t)
        finally:
            sim.sched = None
            self.current = None
        return self


def _sched():
    sim = ctx.CUR
    return sim.sched if sim is not None else None


_lock_counter = [0]


def _next_id():
    _lock_counter[0] += 1
    return _lock_counter[0]


def reset_ids():
    _lock_counter[0] = 0


class SimLock:
    """threading.Lock as seen by ZODB."""

    def __init__(self):
        self._owner = None
        self.lid = _next_id()

    def acquire(self, blocking=True, timeout=-1):
        s = _sched()
        if s is None:
            if self._owner is not None:
                if not blocking:
                    return False
                raise SimDeadlock('blocking acquire of a held lock with no '
                                  'other task to release it')
            self._owner = True
            return True
        s.yield_point('lock.acquire', self.lid)
        if self._owner is not None:
            if not blocking:
                return False
            ok = s.wait_for(lambda: self._owner is None, ('lock', self.lid),
                            timeout if timeout is not None and timeout >= 0
                            else None)
            if not ok:
                return False
        self._owner = s.current or True
        return True

    def release(self):
        if self._owner is None:
            raise RuntimeError('release unlocked lock')
        self._owner = None
        s = _sched()
        if s is not None:
            s.yield_point('lock.release', self.lid, can_raise=False)

    def locked(self):
        return self._owner is not None

    def __enter__(self):
        self.acquire()
        return True

    def __exit__(self, *a):
        self.release()


class SimRLock:

    def __init__(self):
        self._owner = None
        self._count = 0
        self.lid = _next_id()

    def _me(self, s):
        if s is None:
            return 'main'
        return s.current if s.current is not None else 'main'

    def acquire(self, blocking=True, timeout=-1):
        s = _sched()
        me = self._me(s)
        if self._owner is me or (self._owner is not None and s is None):
            # re-entrant (in single-task mode every holder is "me")
            self._count += 1
            return True
        if s is None:
            self._owner = me
            self._count = 1
            return True
        s.yield_point('rlock.acquire', self.lid)
        if self._owner is not None:
            if not blocking:
                return False
            ok = s.wait_for(lambda: self._owner is None, ('rlock', self.lid),
                            timeout if timeout is not None and timeout >= 0
                            else None)
            if not ok:
                return False
        self._owner = me
        self._count = 1
        return True

    def release(self):
        if self._owner is None:
            raise RuntimeError('cannot release un-acquired lock')
        self._count -= 1
        if self._count == 0:
            self._owner = None
            s = _sched()
            if s is not None:
                s.yield_point('rlock.release', self.lid, can_raise=False)

    def _is_owned(self):
        s = _sched()
        return self._owner is not None and (s is None
                                            or self._owner is self._me(s))

    def _release_save(self):
        st = (self._owner, self._count)
        self._owner = None
        self._count = 0
        return st

    def _acquire_restore(self, st):
        s = _sched()
        if self._owner is not None:
            if s is None:
                raise SimDeadlock('condition re-acquire with no other task')
            s.wait_for(lambda: self._owner is None, ('rlock', self.lid))
        self._owner, self._count = st

    def __enter__(self):
        self.acquire()
        return True

    def __exit__(self, *a):
        self.release()


class _Waiter:
    __slots__ = ('notified',)

    def __init__(self):
        self.notified = False


class SimCondition:

    def __init__(self, lock=None):
        self._lock = lock if lock is not None else SimRLock()
        self._waiters = []
        self.lid = _next_id()
        self.acquire = self._lock.acquire
        self.release = self._lock.release

    def __enter__(self):
        return self._lock.__enter__()

    def __exit__(self, *a):
        return self._lock.__exit__(*a)

    def _owned(self):
        lk = self._lock
        if hasattr(lk, '_is_owned'):
            return lk._is_owned()
        return lk.locked()

    def wait(self, timeout=None):
        if not self._owned():
            raise RuntimeError('cannot wait on un-acquired lock')
        s = _sched()
        lk = self._lock
        if s is None:
            if timeout is None:
                raise SimDeadlock('condition wait with no other task to '
                                  'notify')
            sim = ctx.CUR
            if sim is not None:
                sim.clock.advance(timeout)
            return False
        w = _Waiter()
        self._waiters.append(w)
        if hasattr(lk, '_release_save'):
            st = lk._release_save()
        else:
            lk.release()
            st = None
        try:
            ok = s.wait_for(lambda: w.notified, ('cond', self.lid), timeout)
        finally:
            if w in self._waiters:
                self._waiters.remove(w)
            if st is not None:
                lk._acquire_restore(st)
            else:
                lk.acquire()
        return ok

    def wait_for(self, predicate, timeout=None):
        r = predicate()
        while not r:
            if not self.wait(timeout) and timeout is not None:
                return predicate()
            r = predicate()
        return r

    def notify(self, n=1):
        if not self._owned():
            raise RuntimeError('cannot notify on un-acquired lock')
        for w in self._waiters[:n]:
            w.notified = True
        del self._waiters[:n]
        s = _sched()
        if s is not None:
            s.yield_point('cond.notify', self.lid, can_raise=False)

    def notify_all(self):
        self.notify(len(self._waiters))

    notifyAll = notify_all
