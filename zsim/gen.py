"""Generators of storage-level histories (the op language of zsim.hist)."""

import random

META_LENS = (0, 0, 0, 1, 5, 40, 300, 4000, 65535 - 23)


def gen_meta(r, big=True):
    if r.random() < 0.5:
        return None
    m = {}
    for k in 'ude':
        if r.random() < 0.5:
            v = r.choice(META_LENS if big else META_LENS[:6])
            if k == 'e':
                v = min(v, 3000)
            m[k] = v
    # total header must stay <= 65535 for a legal transaction
    tot = sum(m.values())
    if tot > 60000:
        m = {'u': m.get('u', 0)} if m.get('u', 0) < 60000 else {'d': 7}
    return m or None


def gen_rec(r, noids, kind, classes=('Cell', 'Cell', 'Merge', 'Boom',
                                     'NewArgs'), refs=True,
            sizes=(0, 1, 10, 50, 200, 3000, 20000)):
    rec = {'o': r.randrange(noids)}
    sz = r.choice(sizes)
    if sz:
        rec['size'] = sz
    if kind == 'file' or kind.startswith('demo'):
        rec['cls'] = r.choice(classes)
    x = r.random()
    if x < 0.12:
        rec['serial'] = 'stale'
    elif x < 0.16:
        rec['serial'] = 'stale2'
    elif x < 0.19:
        rec['serial'] = 'bogus'
    elif x < 0.21:
        rec['serial'] = 'zero'
    if refs and r.random() < 0.4:
        rec['refs'] = [r.randrange(noids) for _ in range(r.randint(1, 3))]
        if r.random() < 0.2:
            rec['fmt'] = r.choice(['o', 'w', 'n', 'm'])
    return rec


def gen_txn(r, noids, kind, aborts=True, **kw):
    op = {'op': 'txn',
          'recs': [gen_rec(r, noids, kind, **kw)
                   for _ in range(r.choice((1, 1, 1, 2, 2, 3, 4)))]}
    if r.random() < 0.03:
        op['recs'] = []
    m = gen_meta(r)
    if m:
        op['meta'] = m
    if aborts:
        x = r.random()
        if x < 0.04:
            op['end'] = 'abort0'
        elif x < 0.08:
            op['end'] = 'abortN'
        elif x < 0.13:
            op['end'] = 'abortV'
    if r.random() < 0.12:
        # dependencies declared current (readCurrent), some of them stale
        op['rc'] = [[r.randrange(noids), r.choice((None, None, 'stale'))]
                    for _ in range(r.choice((1, 1, 2)))]
    return op


def gen_history(seed, kind='file', n=None, weights=None, noids=None):
    r = random.Random(seed)
    n = n or r.randint(3, 12)
    noids = noids or r.choice((2, 3, 5, 8, 14))
    w = {'txn': 50, 'undo': 12, 'delete': 4, 'rtxn': 8, 'reopen': 8,
         'clock': 7, 'new_oid': 2, 'wrong': 1}
    if kind == 'file':
        w['mundo'] = 4
    if kind == 'mapping':
        w = {'txn': 70, 'clock': 10, 'new_oid': 3, 'wrong': 2}
    if weights:
        w.update(weights)
    if not w.get('undo'):
        w['mundo'] = 0
    names = [k for k in w if w[k] > 0]
    wts = [w[k] for k in names]
    ops = []
    for _ in range(n):
        k = r.choices(names, wts)[0]
        if k == 'txn':
            ops.append(gen_txn(r, noids, kind))
        elif k == 'undo':
            op = {'op': 'undo',
                  'targets': [r.randrange(64)
                              for _ in range(r.choice((1, 1, 1, 2, 3)))]}
            if r.random() < 0.6:
                # bias to recent transactions: negative index from the end
                op['targets'] = [-1 - r.randrange(3) for _ in op['targets']]
            if r.random() < 0.08:
                op['end'] = 'abortV'
            m = gen_meta(r, big=False)
            if m:
                op['meta'] = m
            ops.append(op)
        elif k == 'mundo':
            # one undo transaction undoing two (three) transactions of the
            # same object -- it then holds several records of that object
            # -- followed by a write and its undo, whose back pointer
            # leads to the last of them
            o = r.randrange(noids)
            m = r.choice((2, 2, 3))
            cls = r.choice(('Cell', 'Cell', 'Merge'))
            for _ in range(m + 1):
                ops.append({'op': 'txn', 'recs': [
                    {'o': o, 'cls': cls, 'size': r.choice((0, 10, 200))}]})
            tg = [-1 - i for i in range(m)]
            if r.random() < 0.2:
                tg.reverse()
            ops.append({'op': 'undo', 'targets': tg})
            if r.random() < 0.8:
                ops.append({'op': 'txn', 'recs': [
                    {'o': o, 'cls': cls, 'size': r.choice((0, 10))}]})
                ops.append({'op': 'undo', 'targets': [-1]})
        elif k == 'delete':
            op = {'op': 'delete', 'o': r.randrange(noids)}
            if r.random() < 0.2:
                op['serial'] = 'stale'
            ops.append(op)
        elif k == 'rtxn':
            recs = []
            for _ in range(r.randint(1, 3)):
                rec = gen_rec(r, noids, kind)
                rec.pop('serial', None)
                x = r.random()
                if x < 0.25:
                    rec['kind'] = 'back'
                    rec['prev'] = r.randrange(8)
                elif x < 0.35:
                    rec['kind'] = 'uncreate'
                elif x < 0.45:
                    rec['badhint'] = r.randint(1, 3)
                recs.append(rec)
            op = {'op': 'rtxn', 'dt': r.choice((1, 1, 2, 1000, 10 ** 9)),
                  'status': r.choice((' ', ' ', 'p')), 'recs': recs}
            if r.random() < 0.08:
                op['end'] = 'abortV'
            ops.append(op)
        elif k == 'reopen':
            ops.append({'op': 'reopen', 'drop_index': r.random() < 0.4})
        elif k == 'clock':
            mode = r.choice(('stall', 'back', 'jump', 'tiny'))
            op = {'op': 'clock', 'mode': mode}
            if mode == 'stall':
                op['n'] = r.randint(1, 12)
            elif mode == 'back':
                op['s'] = r.choice((0.5, 61, 3600, 86400 * 3))
            elif mode == 'jump':
                op['s'] = r.choice((61, 3600, 86400 * 400))
            else:
                op['tick'] = r.choice((1e-9, 1e-7, 1e-4))
            ops.append(op)
        elif k == 'new_oid':
            ops.append({'op': 'new_oid'})
        elif k == 'wrong':
            ops.append({'op': 'wrong', 'o': r.randrange(noids)})
        elif k == 'sweep':
            ops.append({'op': 'sweep'})
        elif k == 'pack':
            ops.append({'op': 'pack',
                        'where': r.choice(('at', 'between', 'after_all',
                                           'before_all', 'just_after')),
                        'at': r.randrange(16)})
    return ops
