"""The simulation context: one `Sim` per run, one current Sim per process."""

import collections
import hashlib
import random


def subseed(seed, *names):
    h = hashlib.blake2b(digest_size=8)
    h.update(repr((seed,) + names).encode())
    return int.from_bytes(h.digest(), 'big')


class SimAbort(BaseException):
    """Raised inside a task at a yield point to unwind it (end of run)."""


class SimDeadlock(Exception):
    """A task waits for something nobody can provide."""


class StepCap(Exception):
    """A per-run step budget was exceeded."""


class Sim:
    """Everything one simulated run owns."""

    def __init__(self, seed, bufsize=8192, clock=None, record_events=False):
        from . import simclock
        from . import simfs
        self.seed = seed
        self.fs = simfs.SimFS(self, bufsize=bufsize)
        self.clock = simclock.SimClock(self, **(clock or {}))
        self.sched = None
        self.probes = collections.Counter()
        self.faults_fired = collections.Counter()
        self.seq = 0                      # global event sequence number
        self.record_events = record_events
        self.events = []
        self._hash = hashlib.blake2b(digest_size=16)
        self.io_budget = None             # raw I/O step cap (termination)
        self.io_steps = 0
        self.demo_random = random.Random(subseed(seed, 'demo-random'))

    def rng(self, name):
        return random.Random(subseed(self.seed, name))

    def probe(self, name, n=1):
        self.probes[name] += n

    def event(self, *what):
        """Append to the event log / digest.  Never draws randomness."""
        self.seq += 1
        self._hash.update(repr(what).encode())
        if self.record_events:
            self.events.append(what)
        return self.seq

    def digest(self, *extra):
        """Hash of the event log, the disk's op log and final image, and
        whatever the check adds (outcomes)."""
        h = self._hash.copy()
        h.update(repr(self.fs.log).encode())
        h.update(repr(sorted(self.fs.image().items())).encode())
        h.update(repr(extra).encode())
        return h.hexdigest()


CUR = None


def current():
    return CUR


def activate(sim):
    global CUR
    CUR = sim
    return sim


def deactivate():
    global CUR
    CUR = None
