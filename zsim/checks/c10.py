"""C10 -- conflict resolution stores exactly the class's three-way merge
(DESIGN §6 C10)."""

import random

from persistent.wref import WeakRef
from ZODB.POSException import ConflictError

from .. import ctx
from .. import dbh
from .. import gen as G
from .. import objs
from ..hist import Driver
from ..hist import Violation
from ..model import Log

ID = 'C10'
LEVEL = 'exploration'
RULE = ('conn arm: 2-3 connections on a DB over FileStorage (simulated '
        'disk), DemoStorage or MappingStorage, their transaction steps '
        '(begin, modify, add references, commit, abort) interleaved by '
        'seed so that pairs and chains of writers start from the same '
        'revision (also commits that leave the state unchanged, and '
        'writers producing equal states; also under ZODB\'s HexStorage '
        'record-transforming wrapper); classes with a recording '
        'deterministic resolver, none, '
        'a raising one and one that raises ConflictError; states hold '
        'strong references (oid+class and bare-oid formats) and weak '
        'references; oracle: the stored revision decodes to exactly '
        'resolver(state at the writer\'s base serial, committed state, '
        'writer\'s state) with references to the same oids, the resolver '
        'was called with exactly these three states, the writer\'s copy is '
        'a ghost afterwards and reads the merged state, other connections '
        'read it after their boundary, unresolvable cases raise '
        'ConflictError and store nothing.  storage arm: the C04 driver '
        'with stale-serial stores of records in every reference format '
        '(incl. cross-database) and of a class that cannot be imported; '
        'and undo histories (single and multi-transaction undos of '
        'objects changed again later, so that the undo must merge -- in a '
        'multi-undo against a record of the same undo transaction).  '
        'non-trivial = >= 1 resolution attempted; distinct = outcome trace')
RULE += ('  '
         'Later additions: resolvable classes whose __new__ requires, '
         'or whose resolver depends on, the constructor arguments of '
         'the record; an exception other than a conflict error from '
         'store() is a violation. ')
BUDGET = {'quick': {'runs': 10000, 'wall': 300, 'chunk': 25},
          'thorough': {'runs': 900000, 'wall': 1200, 'chunk': 100}}
ASSUMPTIONS = [
    'the merge function keeps the references of both sides without '
    'comparing them (PersistentReference objects refuse comparison)',
]
SHRINK = ['steps', 'ops']
KINDS = ['file', 'file', 'file', 'demo:mapping:mapping', 'demo:file:file',
         'mapping', 'hex:file', 'hex:demo:mapping:mapping']
CLASSES = ['Merge', 'Merge', 'Merge', 'Cell', 'Boom', 'Boom2', 'MergeNA',
           'Flaky', 'Flaky', 'MergeND']


class MergeNA(objs.Merge):
    """A resolvable class whose __new__ *requires* the constructor
    argument its records carry."""

    def __new__(cls, tag, *args):
        inst = objs.Merge.__new__(cls)
        inst._v_tag = tag
        return inst

    def __getnewargs__(self):
        return ('na',)


class MergeND(objs.Merge):
    """A resolvable class with an optional constructor argument on which
    its resolver depends (as a capped counter's does on its cap): the
    resolver must run on an instance made with the record's arguments."""

    def __new__(cls, tag=None, *args):
        inst = objs.Merge.__new__(cls)
        inst._v_tag = tag
        return inst

    def __getnewargs__(self):
        return ('nd',)

    def _p_resolveConflict(self, old, committed, new):
        objs.RESOLVE_CALLS.append(('MergeND', old, committed, new))
        out = objs.merge_states(old, committed, new)
        if getattr(self, '_v_tag', None) != 'nd':
            out['token'] = ['resolver ran on an instance made without '
                            'the constructor arguments of the record']
        return out


for _c in (MergeNA, MergeND):
    objs.CLASSES[_c.__name__] = _c
    setattr(objs, _c.__name__, _c)
    _c.__module__ = 'zsim.objs'
    _c.__qualname__ = _c.__name__


def gen_undo(r, tier):
    """Storage arm, undo path: the undo of a transaction whose object was
    changed again later stores resolver(state to restore... ) -- here the
    writer is the undo: it starts from the undone revision, wants the
    state before it, and the committed state is the current one (which,
    in a multi-undo, may be a record of the same undo transaction)."""
    noids = r.choice((1, 1, 2, 3))
    cls_of = [r.choice(('Merge', 'Merge', 'Merge', 'Boom', 'Boom2', 'Cell'))
              for _ in range(noids)]
    ops = []
    for _ in range(r.randint(4, 11)):
        if r.random() < 0.6:
            op = G.gen_txn(r, noids, 'file', aborts=False,
                           classes=('Merge',), refs=True,
                           sizes=(0, 0, 10, 200))
            for rec in op['recs']:
                rec['cls'] = cls_of[rec['o'] % noids]
                # (stale2 after an undo: the writer's base has the same
                # bytes as the committed undo revision)
                if rec.get('serial') in ('bogus', 'zero'):
                    rec.pop('serial')
            ops.append(op)
        else:
            k = r.choice((1, 1, 2, 2, 3))
            ops.append({'op': 'undo',
                        'targets': [-2 - r.randrange(4) for _ in range(k)]})
    return {'arm': 'storage', 'sub': 'undo', 'ops': ops, 'kind': r.choice(
        ('file', 'file', 'demo:mapping:file', 'demo:file:file')),
        'bufsize': 8192, 'tier': tier}


def gen(seed, tier):
    r = random.Random(seed)
    x = r.random()
    if x < 0.12:
        return gen_undo(r, tier)
    if x < 0.4:
        ops = []
        noids = r.choice((1, 2, 3))
        for _ in range(r.randint(3, 10)):
            op = G.gen_txn(r, noids, 'file', aborts=False,
                           classes=('Merge', 'Merge', 'Boom', 'Boom2',
                                    '!Gone', 'Cell', 'NewArgs'))
            for rec in op['recs']:
                if r.random() < 0.5:
                    rec['serial'] = r.choice(('stale', 'stale', 'stale2'))
                if rec.get('refs') and r.random() < 0.6:
                    rec['fmt'] = r.choice(('oc', 'o', 'w', 'n', 'm'))
                if rec.get('size', 0) > 300:
                    rec['size'] = 300
            ops.append(op)
        return {'arm': 'storage', 'ops': ops, 'kind': r.choice(
            ('file', 'file', 'demo:mapping:mapping', 'demo:file:file')),
            'bufsize': 8192, 'tier': tier}
    nobj = r.choice((1, 2, 3))
    nconn = r.choice((2, 2, 3))
    steps = []
    # touch: committed without a change of state (_p_changed = True): the
    # committed revision then has the bytes of the other writer's base
    # same: the new state is a function of the base state only, so that
    # two writers starting from one revision produce *equal* states
    # ref_same: a reference to an object of the holder's own class (its
    # pickle refers back to the class in the record's first pickle)
    kinds = ('plain', 'plain', 'ref', 'ref_na', 'wref', 'touch', 'same',
             'ref_same', 'ref_same')
    for _ in range(r.randint(1, 4)):
        pat = r.choice(('pair', 'pair', 'chain', 'random'))
        if pat == 'random':
            for _ in range(r.randint(3, 8)):
                c = r.randrange(nconn)
                x = r.random()
                if x < 0.22:
                    steps.append(['begin', c])
                elif x < 0.62:
                    steps.append(['mod', c, r.randrange(nobj),
                                  r.choice(kinds)])
                elif x < 0.90:
                    steps.append(['commit', c])
                elif x < 0.95:
                    steps.append(['abort', c])
                else:
                    steps.append(['read', c])
            continue
        # writers that start from the same revision of one object
        who = r.sample(range(nconn), 2 if pat == 'pair' else nconn)
        k = r.randrange(nobj)
        block = [['begin', c] for c in who]
        for c in who:
            block.append(['mod', c, k, r.choice(kinds)])
            if r.random() < 0.3:
                block.append(['mod', c, r.randrange(nobj), r.choice(kinds)])
        r.shuffle(block)
        block.sort(key=lambda s_: s_[0] != 'begin')     # begins first
        for c in who:
            block.append(['commit', c])
            if r.random() < 0.3:
                block.append(['read', r.randrange(nconn)])
        steps.extend(block)
    return {'arm': 'conn', 'kind': r.choice(KINDS), 'nobj': nobj,
            'nconn': nconn,
            'classes': [r.choice(CLASSES) for _ in range(nobj)],
            'steps': steps, 'cache_size': r.choice((0, 400)),
            'explicit': r.random() < 0.35,
            'bufsize': r.choice((64, 8192)), 'tier': tier}


def canon_obj_state(state):
    """A live object's state with persistent sub-objects as markers."""
    def conv(v):
        if isinstance(v, WeakRef):
            return objs._Marker(('w', v.oid))
        oid = getattr(v, '_p_oid', None)
        if oid is not None and hasattr(v, '_p_jar'):
            fmt = 'o' if hasattr(type(v), '__getnewargs__') else 'oc'
            return objs._Marker((fmt, oid))
        if isinstance(v, dict):
            return {k: conv(x) for k, x in v.items()}
        if isinstance(v, (list, tuple)):
            return [conv(x) for x in v]
        return v
    return conv(state)


def run_conn(case):
    sim = ctx.activate(ctx.Sim(case['seed'], bufsize=case['bufsize']))
    db = dbh.make_db(sim, case['kind'], cache_size=case['cache_size'])
    st = db.storage
    resolving = not case['kind'] == 'mapping'
    log = Log()
    viol = []
    trace = []
    nres = 0

    def flag(o, x):
        if len(viol) < 20:
            viol.append((o, x))

    def adopt():
        if case['kind'].startswith('demo'):
            n = 0
            if not log.txns:
                n += dbh.adopt(log, st.base)
            n += dbh.adopt(log, st.changes)
            return n
        return dbh.adopt(log, st)

    counter = [0]

    def tok():
        counter[0] += 1
        return counter[0]

    explicit = bool(case.get('explicit'))
    clients = [dbh.Client(db, 'c%d' % i, explicit=explicit)
               for i in range(case['nconn'])]
    try:
        c0 = clients[0]
        c0.open()
        c0.begin()
        root = c0.root()
        for i, cn in enumerate(case['classes']):
            o = objs.CLASSES[cn](tok())
            root['m%d' % i] = o
        for cn in sorted(set(case['classes'])):
            root['s_' + cn] = objs.CLASSES[cn](tok())   # same-class refs
        root['h'] = objs.Cell(tok())         # a helper: (oid, class) refs
        root['hn'] = objs.NewArgs(tok())     # a helper: bare-oid refs
        c0.commit()
        adopt()
        for c in clients[1:]:
            c.open()
        for c in clients:
            c.begin()
        # per client: oid -> base serial recorded at first modification
        bases = [dict() for _ in clients]
        for step in case['steps']:
            kind, ci = step[0], step[1]
            cl = clients[ci]
            if kind == 'begin':
                cl.abort()
                cl.begin()
                bases[ci].clear()
                trace.append('b%d' % ci)
            elif kind == 'mod':
                o = cl.root()['m%d' % (step[2] % case['nobj'])]
                t = tok()
                o.token
                if o._p_oid not in bases[ci]:
                    bases[ci][o._p_oid] = o._p_serial
                if step[3] == 'touch' and not o._p_changed:
                    o._p_changed = True
                    trace.append('t%d' % ci)
                    continue
                if step[3] == 'same':
                    o.token = ['s', dbh.hashable(o.token)]
                    o.n = o.n + 1
                    o.log = o.log + ['s%d' % o.n]
                    trace.append('s%d' % ci)
                    continue
                o.token = t
                o.n = o.n + 1
                o.log = o.log + [t]
                if step[3] == 'ref':
                    o.refs = o.refs + [cl.root()['h']]
                elif step[3] == 'ref_same':
                    o.refs = o.refs + [cl.root()['s_' + type(o).__name__]]
                elif step[3] == 'ref_na':
                    o.refs = o.refs + [cl.root()['hn']]
                elif step[3] == 'wref':
                    o.refs = o.refs + [WeakRef(cl.root()['h'])]
                trace.append('m%d' % ci)
            elif kind == 'abort':
                cl.abort()
                if explicit:
                    cl.begin()
                bases[ci].clear()
                trace.append('a%d' % ci)
            elif kind == 'read':
                cl.begin()
                bases[ci].clear()
                for i in range(case['nobj']):
                    o = cl.root()['m%d' % i]
                    cur = log.current(o._p_oid)
                    want = dbh.token_of(cur[1].data)
                    if dbh.hashable(o.token) != want:
                        flag('stale-read', 'connection %d reads token %r '
                             'of object %d after a boundary, committed is '
                             '%r' % (ci, o.token, i, want))
                trace.append('r%d' % ci)
            elif kind == 'commit':
                # expectation per modified object
                expect = {}
                conflict_expected = False
                for oid, base in sorted(bases[ci].items()):
                    o = cl.conn.get(oid)
                    if not o._p_changed:
                        continue
                    cur = log.current(oid)
                    new_state = canon_obj_state(o.__getstate__())
                    if cur[0] == base:
                        expect[oid] = ('plain', new_state)
                        continue
                    cls = type(o).__name__
                    if not resolving or cls not in ('Merge', 'MergeNA',
                                                    'MergeND', 'Flaky'):
                        conflict_expected = True
                        continue
                    if cls == 'Flaky' and new_state.get('n', 0) % 2:
                        # this resolver fails for these inputs (and must
                        # be asked again next time)
                        conflict_expected = True
                        continue
                    old_rec = [r for t_, r in log.revisions(oid)
                               if t_ == base][0]
                    so = objs.canon_state(objs.decode_record(
                        old_rec.data)[1])
                    sc = objs.canon_state(objs.decode_record(
                        cur[1].data)[1])
                    merged = objs.canon_state(
                        objs.merge_states(so, sc, new_state))
                    expect[oid] = ('merge', merged, so, sc, new_state)
                ncalls = len(objs.RESOLVE_CALLS)
                err = None
                try:
                    cl.commit()
                except ConflictError as e:
                    err = e
                    cl.abort()
                n = adopt()
                calls = objs.RESOLVE_CALLS[ncalls:]
                if any(v[0] == 'merge' for v in expect.values()) or \
                        conflict_expected:
                    nres += 1
                if conflict_expected:
                    trace.append('X%d' % ci)
                    if err is None:
                        flag('unresolvable-committed', 'connection %d '
                             'committed although an object it wrote had '
                             'changed and its class cannot merge' % ci)
                    if n:
                        flag('failed-commit-stored', 'a commit that raised '
                             'ConflictError stored a transaction')
                else:
                    trace.append('C%d' % ci)
                    if err is not None:
                        flag('resolvable-refused', 'connection %d got %s '
                             'although every conflicting object can be '
                             'merged: %s' % (ci, type(err).__name__,
                                             str(err)[:60]))
                    elif expect:
                        t = log.txns[-1]
                        stored = {r.oid: r for r in t.recs}
                        for oid, ex in expect.items():
                            r = stored.get(oid)
                            if r is None:
                                flag('merge-not-stored', 'no record for %r '
                                     'in the committed transaction' % oid)
                                continue
                            got = objs.canon_state(
                                objs.decode_record(r.data)[1])
                            if got != ex[1]:
                                flag('merge-result' if ex[0] == 'merge'
                                     else 'plain-store-changed',
                                     'stored state of %r is %r, expected '
                                     '%r' % (oid, _sh(got), _sh(ex[1])))
                            if ex[0] == 'merge':
                                # the resolver saw exactly (old, committed,
                                # new)
                                ok = any(
                                    objs.canon_state(c[1]) == ex[2]
                                    and objs.canon_state(c[2]) == ex[3]
                                    and objs.canon_state(c[3]) == ex[4]
                                    for c in calls)
                                if not ok:
                                    flag('resolver-arguments', 'the '
                                         'resolver of %r was not called '
                                         'with (state at the writer\'s '
                                         'base, committed state, writer\'s '
                                         'state)' % (oid,))
                                o = cl.conn.get(oid)
                                if o._p_changed is not None:
                                    flag('writer-keeps-copy', 'after a '
                                         'resolved commit the writer\'s '
                                         'copy of %r is not a ghost'
                                         % (oid,))
                                if explicit:
                                    cl.begin()
                                tk = dbh.hashable(o.token)
                                if tk != dbh.hashable(ex[1]['token']):
                                    flag('writer-reads-own', 'the writer '
                                         'reads token %r after a resolved '
                                         'commit, stored is %r'
                                         % (tk, ex[1]['token']))
                bases[ci].clear()
                if explicit:
                    cl.begin()
        for c in clients:
            c.abort()
    except Exception as e:      # noqa: B902
        import traceback
        flag('conn-arm-raises', '%s: %s | %s' % (
            type(e).__name__, str(e)[:80],
            ' / '.join(x.strip()[:70] for x in
                       traceback.format_exc().strip().splitlines()[-4:-1])))
    finally:
        try:
            for c in clients:
                c.abort()
            db.close()
        except Exception:       # noqa: B902
            pass
    stats = {'sim_time_s': sim.clock.elapsed(), 'arm:conn': 1,
             'kind:' + case['kind']: 1, 'resolutions_attempted': nres,
             'resolver_calls': len(objs.RESOLVE_CALLS)}
    for x in trace:
        if x[0] in 'CX':
            stats['commit:' + ('ok' if x[0] == 'C' else 'conflict')] = \
                stats.get('commit:' + ('ok' if x[0] == 'C'
                                       else 'conflict'), 0) + 1
    return {
        'violations': [{'oracle': o, 'detail': x} for o, x in viol[:20]],
        'stats': stats,
        'keys': ['c|%s|%s' % (case['kind'], ''.join(trace))] if nres else [],
        'evals': 1,
        'sample': {'arm': 'conn', 'kind': case['kind'],
                   'classes': case['classes'], 'steps': case['steps'],
                   'trace': trace},
        'digest': sim.digest(trace, viol),
    }


def _sh(x):
    s = repr(x)
    return s if len(s) < 160 else s[:157] + '...'


def run_storage(case):
    sim = ctx.activate(ctx.Sim(case['seed'], bufsize=case['bufsize']))
    d = Driver(sim, case['kind'], opts={'base_ops': []}
               if case['kind'].startswith('demo') else None)
    try:
        for op in case['ops']:
            d.execute(op)
        d.full_sweep('end: ')
    except Violation:
        pass
    finally:
        try:
            d.close()
        except Exception:       # noqa: B902
            pass
    stats = {'sim_time_s': sim.clock.elapsed(), 'arm:storage': 1,
             'kind:' + case['kind']: 1,
             'sub:' + case.get('sub', 'store'): 1,
             'resolver_calls': len(objs.RESOLVE_CALLS)}
    for o in d.outcomes:
        stats['outcome:' + o] = stats.get('outcome:' + o, 0) + 1
    return {
        'violations': [{'oracle': o, 'detail': x} for o, x in d.viol[:20]],
        'stats': stats,
        'keys': ['s|%s|%s|%d' % (case['kind'], ','.join(d.outcomes),
                                 len(objs.RESOLVE_CALLS))]
        if len(objs.RESOLVE_CALLS) else [],
        'evals': 1,
        'sample': {'arm': 'storage', 'kind': case['kind'],
                   'ops': case['ops'], 'outcomes': d.outcomes},
        'digest': sim.digest(d.outcomes, d.viol),
    }


def run(case):
    if case['arm'] == 'storage':
        return run_storage(case)
    return run_conn(case)


LEVEL_TEXT = ('seeded search over interleavings of 2-3 connections\' '
              'transaction steps on real Connection/ConflictResolution/'
              'storage code over the simulated disk; the expected merge is '
              'computed by the harness from the committed history and the '
              'writer\'s live state, the stored record is decoded '
              'independently of ZODB.serialize, and the recorded resolver '
              'calls are compared argument by argument.')
LEVEL_NOTE = ('interleaving at transaction-step granularity (no '
              'pre-emption inside a commit: that is C03); cross-database '
              'reference formats only in the storage arm; undo-path '
              'resolution also by C06; trusted: decoder, merge '
              'function')
TECHNIQUE = ('deterministic simulation: seeded step interleaving of several '
             'connections, harness-computed three-way merge oracle, '
             'recorded resolver calls')
