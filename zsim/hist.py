"""Storage-level histories: the op language, its generator and the lock-step
executor (real storage + reference model)."""

import pickle

from ZODB.Connection import TransactionMetaData
from ZODB.POSException import ConflictError
from ZODB.POSException import POSKeyError
from ZODB.POSException import ReadConflictError
from ZODB.POSException import StorageTransactionError
from ZODB.POSException import UndoError
from ZODB.utils import p64
from ZODB.utils import u64

from . import objs
from .model import BACK
from .model import DATA
from .model import UNCREATE
from .model import Log
from .model import MRec
from .model import MTxn
from .model import UndoRefused
from .model import undo_id
from .model import z64
from .sweep import q
from .sweep import sweep

OIDTAB = [p64(i) for i in range(8)] + [
    p64(0x10001), p64(0x20000ff), b'abcdefgh', b'\0\0\0\0\0\1\0\0',
    p64(0x7fffffffffff0000 >> 16), b'\0\0\0\0\0\0\1\0',
]

RESOLVABLE = ('Merge',)


def oid_of(i):
    return OIDTAB[i % len(OIDTAB)]


CAPS = {
    'file': dict(undo=True, pack=True, record_iternext=True, last_inv=True,
                 loadserial=True, history_size=True, iter_all_recs=True,
                 resolve=True, delete=True, restore=True, reopen=True),
    'demo': dict(undo=False, pack=False, record_iternext=False,
                 last_inv=False, loadserial=True, history_size=True,
                 iter_all_recs=True, resolve=True, delete=False,
                 restore=False, reopen=False, len=False),
    'mapping': dict(undo=False, pack=True, record_iternext=False, last_inv=False,
                    loadserial=True, history_size=True, iter_all_recs=False,
                    iter_sorted=True, resolve=False, delete=False,
                    restore=False, reopen=False),
}


class Violation(Exception):
    def __init__(self, oracle, detail):
        Exception.__init__(self, oracle, detail)
        self.oracle = oracle
        self.detail = detail


class Driver:
    """Executes history ops against a real storage and the model."""

    def __init__(self, sim, kind='file', path='/sim/Data.fs', opts=None,
                 sweep_every=None):
        self.sim = sim
        self.kind = kind
        self.path = path
        self.opts = dict(opts or {})
        self.caps = dict(CAPS[kind.split(':')[0]])
        self.model = Log()
        self.viol = []              # (oracle, detail)
        self.counter = 0
        self.st = None
        self.outcomes = []
        self.issued = []            # oids returned by new_oid
        self.marks = []             # per committed txn: bookkeeping by checks
        self.commit_log = []        # tids in commit order (packs keep it)
        self.on_commit = None       # hook(driver, tid) after each commit
        self.opts_protect_root = self.opts.pop('protect_root', False)
        self.base_driver = None
        if kind.startswith('demo'):
            self.setup_demo()
        self.open(create=True)

    # -- storage life cycle ----------------------------------------------

    def setup_demo(self):
        """Build and fill the base storage with its own driver; the demo
        driver's model starts as a copy of the base's."""
        _, bk, ck = (self.kind.split(':') + ['mapping', 'mapping'])[:3]
        self.demo_kinds = (bk, ck)
        bd = Driver(self.sim, bk, path='/sim/Base.fs',
                    opts={'pack_gc': False} if bk == 'file' else None)
        for op in self.opts.pop('base_ops', ()):
            try:
                bd.execute(op)
            except Violation:
                break
        self.base_driver = bd
        self.model = Log(bd.model.txns)
        self.counter = bd.counter + 1000
        self.viol.extend(('base:' + o, x) for o, x in bd.viol)
        if ck == 'file':
            self.caps['undo_ops'] = True

    def make_storage(self, create=False):
        if self.kind.startswith('demo'):
            from ZODB.DemoStorage import DemoStorage
            from ZODB.FileStorage import FileStorage
            bk, ck = self.demo_kinds
            changes = None
            if ck == 'file':
                # (DemoStorage.pack must ask for gc=False itself: a
                # collection that sees one layer only would drop objects
                # referenced from the base)
                changes = FileStorage('/sim/Changes.fs', create=create,
                                      pack_gc=self.opts.get(
                                          'changes_pack_gc', False))
            elif ck == 'mapping':
                from ZODB.MappingStorage import MappingStorage
                changes = MappingStorage('changes')
            return DemoStorage(base=self.base_driver.st, changes=changes)
        if self.kind == 'file':
            from ZODB.FileStorage import FileStorage
            return FileStorage(self.path, create=create, **self.opts)
        if self.kind == 'mapping':
            from ZODB.MappingStorage import MappingStorage
            return MappingStorage()
        raise ValueError(self.kind)

    def open(self, create=False):
        self.st = self.make_storage(create)

    def close(self):
        if self.st is not None:
            self.st.close()
            self.st = None

    def flag(self, oracle, detail):
        self.viol.append((oracle, detail))

    # -- helpers -----------------------------------------------------------

    def meta(self, spec):
        spec = spec or {}
        self.counter += 1
        k = self.counter
        ul, dl, el = spec.get('u', 0), spec.get('d', 0), spec.get('e', 0)
        user = (b'U%d:' % k).ljust(ul, b'u')[:ul]
        desc = (b'D%d:' % k).ljust(dl, b'd')[:dl]
        ext = {}
        if el:
            ext = {'k%d' % k: 'e' * el}
        return user, desc, ext

    def ext_bytes(self, ext):
        return pickle.dumps(ext, 3) if ext else b''

    def new_state(self, r):
        self.counter += 1
        tok = self.counter
        refs = [objs.Ref(oid_of(j), r.get('fmt', 'oc'))
                for j in r.get('refs', ())]
        state = {'token': tok, 'n': r.get('n', 1), 'log': [tok],
                 'refs': refs, 'pad': 'x' * r.get('size', 0)}
        cls = r.get('cls', 'Cell')
        data = objs.make_record(cls, state)
        strong = tuple(x.oid for x in refs if x.strong())
        return cls, state, data, strong

    def pick_serial(self, oid, how, staged):
        """The serial argument a client passes to store()."""
        cur = self.model.current(oid)
        if how == 'cur' or how is None:
            return cur[0] if cur is not None else z64
        if how == 'zero':
            return z64
        revs = self.model.revisions(oid)
        if how == 'stale':
            if len(revs) >= 2:
                return revs[-2][0]
            return p64(u64(cur[0]) - 1) if cur else z64
        if how == 'stale2':
            if len(revs) >= 3:
                return revs[-3][0]
            if len(revs) >= 2:
                return revs[-2][0]
            return z64
        if how == 'never':
            return b'\x7f' + b'\xff' * 6 + b'\xfe'   # never a revision id
        if how == 'bogus':
            return p64(u64(cur[0]) - 1) if cur else p64(12345)
        raise ValueError(how)

    def expect_store(self, oid, serial, cls, data):
        """('ok', data) | ('resolved', expected canonical state) |
        ('conflict',)"""
        cur = self.model.current(oid)
        if cur is None:
            return ('ok', data)
        ctid, crec = cur
        if serial == ctid:
            return ('ok', data)
        if self.base_driver is not None and crec.kind == UNCREATE:
            # un-created: for a demo storage the object does not exist in a
            # lower layer (any serial creates it), while the changes layer
            # itself insists on the un-creation's serial: the property is
            # silent, both outcomes are accepted
            return ('either', data)
        if not self.caps.get('resolve') or cls not in RESOLVABLE:
            return ('conflict',)
        old = None
        for tid, r in self.model.revisions(oid):
            if tid == serial:
                old = r
        kind = 'resolved'
        if old is None and self.model.has_shadow():
            # a revision a pack kept although it could have dropped it
            # (e.g. a second pack to the same time is a no-op): whether
            # the writer's base can still be loaded is not promised
            for tid, r in self.model.shadow_view().revisions(oid):
                if tid == serial:
                    old = r
                    kind = 'resolved?'
        if old is None or old.kind == UNCREATE or crec.kind == UNCREATE:
            return ('conflict',)
        try:
            _, so = objs.decode_record(old.data)
            _, sc = objs.decode_record(crec.data)
            _, sn = objs.decode_record(data)
            merged = objs.merge_states(so, sc, sn)
        except Exception:
            return ('conflict',)
        return (kind, objs.canon_state(merged))

    # -- ops -----------------------------------------------------------------

    def execute(self, op):
        k = op['op']
        out = getattr(self, 'op_' + k)(op)
        self.outcomes.append(out)
        return out

    def begin(self, user, desc, ext, tid=None, status=' '):
        t = TransactionMetaData(user, desc, ext)
        if tid is None:
            self.st.tpc_begin(t)
        else:
            self.st.tpc_begin(t, tid, status)
        return t

    def tpc_finish(self, t):
        """tpc_finish with the op-log positions of its invocation and
        return recorded (C01)."""
        fs = self.sim.fs
        mark = {'invoke': len(fs.log), 'ret': None}
        tid = self.st.tpc_finish(t)
        mark['ret'] = len(fs.log)
        self.marks.append(mark)
        return tid

    def finish(self, t, mt):
        """vote + finish + model update + cheap checks."""
        st = self.st
        st.tpc_vote(t)
        tid = self.tpc_finish(t)
        return self.committed(tid, mt)

    def committed(self, tid, mt):
        last = self.model.last_tid()
        if not (isinstance(tid, bytes) and len(tid) == 8 and tid > last):
            self.flag('tid-order', 'tid %r after %r' % (tid, last))
            # keep the model usable: if order is broken stop this history
            raise Violation('tid-order', 'tid %r after %r' % (tid, last))
        mt.tid = tid
        self.model.append(mt)
        self.commit_log.append(tid)
        if self.on_commit is not None:
            self.on_commit(self, tid)
        oids = {r.oid for r in mt.recs}
        bad = sweep(self.st, self.model, self.caps, oids=oids,
                    tag='after commit: ', full=False)
        for name, b in bad:
            self.flag('query:' + name, b)
        return 'commit'

    def op_txn(self, op):
        st = self.st
        user, desc, ext = self.meta(op.get('meta'))
        t = self.begin(user, desc, ext)
        end = op.get('end', 'commit')
        if end == 'abort0':
            st.tpc_abort(t)
            return 'abort'
        mrecs = []
        # objects the transaction declares it depends on being current
        # (what Connection.readCurrent leads to): with the serial it read
        for o, how in op.get('rc', ()):
            oid = oid_of(o)
            cur = self.model.current(oid)
            if cur is None:
                continue
            if cur[1].kind == UNCREATE and self.base_driver is not None:
                continue    # (un-created objects on a demo storage: the
                #              property is silent, see expect_store)
            if cur[1].kind == UNCREATE:
                # read while it existed: the revision before the un-creation
                revs = [x for x in self.model.revisions(oid)
                        if x[1].kind != UNCREATE]
                if not revs:
                    continue
                serial = revs[-1][0]
                want_rc = 'fail'
            else:
                serial = self.pick_serial(oid, how, None)
                want_rc = 'ok' if serial == cur[0] else 'fail'
            try:
                st.checkCurrentSerialInTransaction(oid, serial, t)
                got_rc = 'ok'
            except (ConflictError, KeyError):
                got_rc = 'fail'
            if got_rc != want_rc:
                self.flag('readcurrent-outcome', 'dependency on %r at %r '
                          '(current %s %r): the check %s'
                          % (oid, serial, 'un-creation' if cur[1].kind ==
                             UNCREATE else 'revision', cur[0],
                             'passed' if got_rc == 'ok' else 'failed'))
            if got_rc == 'fail':
                st.tpc_abort(t)
                return 'readconflict'
        for r in op.get('recs', ()):
            oid = oid_of(r['o'])
            if any(m.oid == oid for m, w in mrecs):
                continue    # one record per oid and transaction
            cls, state, data, strong = self.new_state(r)
            serial = self.pick_serial(oid, r.get('serial'), None)
            want = self.expect_store(oid, serial, cls, data)
            try:
                st.store(oid, serial, data, '', t)
            except ConflictError as e:
                if want[0] in ('either', 'resolved?'):
                    st.tpc_abort(t)
                    return 'conflict'
                if isinstance(e, ReadConflictError) or want[0] != 'conflict':
                    self.flag('store-outcome',
                              'store(%r, serial=%r) raised %s, model says %s'
                              % (oid, serial, type(e).__name__, want[0]))
                st.tpc_abort(t)
                return 'conflict'
            except Exception as e:      # noqa: B902
                # a store is accepted or refused with a conflict error
                self.flag('store-raises', 'store(%r, serial=%r) raised %s: '
                          '%s (model says %s)' % (oid, serial,
                                                  type(e).__name__,
                                                  str(e)[:60], want[0]))
                st.tpc_abort(t)
                return 'store-raises'
            if want[0] == 'resolved?':
                want = ('resolved', want[1])
            if want[0] == 'conflict':
                self.flag('store-outcome',
                          'store(%r, serial=%r) accepted, model says conflict'
                          % (oid, serial))
                st.tpc_abort(t)
                return 'conflict-missed'
            mrecs.append([MRec(oid, DATA, data, None, strong, cls), want])
        if end == 'abortN':
            st.tpc_abort(t)
            return 'abort'
        resolved = st.tpc_vote(t)
        if end == 'abortV':
            self.reads_in_flight()
            st.tpc_abort(t)
            return 'abort'
        tid = self.tpc_finish(t)
        # resolved records: check semantically, then adopt the stored bytes
        want_res = sorted({m.oid for m, w in mrecs if w[0] == 'resolved'})
        got_res = sorted(set(resolved or ()))
        if got_res != want_res:
            self.flag('resolved-report', 'tpc_vote reported %r, expected %r'
                      % (got_res, want_res))
        for m, w in mrecs:
            if w[0] == 'resolved':
                got = q(st.loadSerial, m.oid, tid)
                ok = False
                if got[0] == 'ok':
                    try:
                        meta, state = objs.decode_record(got[1])
                        ok = (objs.canon_state(state) == w[1] and
                              meta == ('class', objs.MODULE, m.cls))
                    except Exception:
                        ok = False
                if not ok:
                    self.flag('resolve-result',
                              'stored revision of %r is not the three-way '
                              'merge' % (m.oid,))
                else:
                    m.data = got[1]
                    m.refs = tuple(k[1] for k in _markers(w[1])
                                   if k[0] in ('oc', 'o'))
        mt = MTxn(None, ' ', user, desc, self.ext_bytes(ext),
                  [m for m, w in mrecs])
        return self.committed(tid, mt)

    def op_delete(self, op):
        st = self.st
        oid = oid_of(op['o'])
        user, desc, ext = self.meta(op.get('meta'))
        t = self.begin(user, desc, ext)
        serial = self.pick_serial(oid, op.get('serial'), None)
        cur = self.model.current(oid)
        try:
            st.deleteObject(oid, serial, t)
        except POSKeyError:
            if cur is not None:
                self.flag('delete-outcome', 'POSKeyError for existing %r'
                          % oid)
            st.tpc_abort(t)
            return 'nokey'
        except ConflictError:
            if cur is None or cur[0] == serial:
                self.flag('delete-outcome', 'conflict with current serial')
            st.tpc_abort(t)
            return 'conflict'
        if cur is None or cur[0] != serial:
            self.flag('delete-outcome', 'deleteObject(%r) accepted with '
                      'stale serial / unknown oid' % oid)
            st.tpc_abort(t)
            return 'conflict-missed'
        mt = MTxn(None, ' ', user, desc, self.ext_bytes(ext),
                  [MRec(oid, UNCREATE, None)])
        return self.finish(t, mt)

    def resolver(self, cls, undone, cur, pre):
        if not self.caps.get('resolve'):
            return None
        return model_resolver(cls, undone, cur, pre)

    def op_undo(self, op):
        st = self.st
        # targets name transactions by commit ordinal, so that a history
        # means the same with and without a pack in between
        if not self.commit_log:
            return 'skip'
        tids = []
        for k in op['targets']:
            tid = self.commit_log[k % len(self.commit_log)]
            if tid not in tids:
                tids.append(tid)
        for tid in tids:
            tt = self.model.txn(tid)
            if tt is not None and \
                    len({r.oid for r in tt.recs}) != len(tt.recs):
                # the undone transaction holds several records of one oid
                # (an earlier overlapping multi-undo): not modelled
                return 'skip'
        user, desc, ext = self.meta(op.get('meta'))
        t = self.begin(user, desc, ext)
        try:
            plan = self.model.plan_undo(tids, self.resolver)
            refused = None
        except UndoRefused as e:
            plan = None
            refused = e
        err = None
        try:
            for tid in tids:
                st.undo(undo_id(tid), t)
        except UndoError as e:
            err = e
        if err is not None:
            st.tpc_abort(t)
            if plan is not None and not _open_undo(plan):
                self.flag('undo-outcome', 'undo of %r refused (%s), model '
                          'says it must succeed' % (tids, str(err)[:60]))
            return 'undo-refused'
        if plan is not None and self.opts_protect_root and any(
                p[0] == z64 and p[1] == UNCREATE for p in plan):
            st.tpc_abort(t)
            return 'skip'       # histories that un-create the root object
        if plan is None:
            if 'open' not in str(refused):
                self.flag('undo-outcome', 'undo of %r accepted, model says '
                          'refuse: %s' % (tids, str(refused)[:80]))
                st.tpc_abort(t)
                return 'undo-missed'
            # property silent: accept the storage's choice but we cannot
            # predict the records; abandon this transaction
            st.tpc_abort(t)
            return 'undo-open'
        if op.get('end') == 'abortV':
            st.tpc_vote(t)
            self.reads_in_flight()
            st.tpc_abort(t)
            return 'abort'
        st.tpc_vote(t)
        tid = self.tpc_finish(t)
        mrecs = []
        # the records as written (a multi-undo can write several records of
        # one oid): taken from the storage's iterator, matched by position
        actual = None
        if any(kind == DATA and isinstance(data, tuple)
               for (oid, kind, data, src, refs, cls, how) in plan):
            try:
                it = st.iterator(tid, tid)
                actual = [(r.oid, r.data) for tr in it for r in tr]
                if hasattr(it, 'close'):
                    it.close()
            except Exception:       # noqa: B902
                actual = None
            if actual is None or [a[0] for a in actual] != [p[0] for p in plan]:
                self.flag('undo-records', 'records of the undo transaction '
                          'differ from the plan')
                actual = None
        for n, (oid, kind, data, src, refs, cls, how) in enumerate(plan):
            if kind == DATA and isinstance(data, tuple):
                mdata = actual[n][1] if actual is not None else b''
                ok = False
                try:
                    _, state = objs.decode_record(mdata)
                    ok = objs.canon_state(state) == data[1]
                except Exception:   # noqa: B902
                    ok = False
                if not ok:
                    self.flag('undo-resolve', 'undo record of %r is not the '
                              'three-way merge (undone, current, previous)'
                              % (oid,))
                refs = tuple(k[1] for k in _markers(data[1])
                             if k[0] in ('oc', 'o'))
                mrecs.append(MRec(oid, DATA, mdata, None, refs, cls))
            else:
                mrecs.append(MRec(oid, kind, data, src, refs or (), cls))
        mt = MTxn(None, ' ', user, desc, self.ext_bytes(ext), mrecs, 'undo')
        return self.committed(tid, mt)

    def op_rtxn(self, op):
        """A transaction restored with an explicit tid and status."""
        st = self.st
        user, desc, ext = self.meta(op.get('meta'))
        last = self.model.last_tid()
        tid = p64(u64(last) + op.get('dt', 1))
        status = op.get('status', ' ')
        t = self.begin(user, desc, self.ext_bytes(ext), tid, status)
        mrecs = []
        for r in op.get('recs', ()):
            oid = oid_of(r['o'])
            if any(m.oid == oid for m in mrecs):
                continue
            kind = r.get('kind', 'data')
            if kind == 'uncreate':
                st.restore(oid, tid, None, '', None, t)
                mrecs.append(MRec(oid, UNCREATE, None))
                continue
            if kind == 'back':
                revs = [(rt, rr) for rt, rr in self.model.revisions(oid)
                        if rr.kind != UNCREATE]
                if revs:
                    rt, rr = revs[r.get('prev', 0) % len(revs)]
                    st.restore(oid, tid, rr.data, '', rt, t)
                    mrecs.append(MRec(oid, BACK, rr.data, rt, rr.refs,
                                      rr.cls))
                    continue
            cls, state, data, strong = self.new_state(r)
            hint = None
            if r.get('badhint') and self.model.txns:
                # an existing transaction that does not hold these bytes:
                # one without a record of this oid, or with a data record
                # (restore trusts a pointer record of the hinted
                # transaction, so the hint must not name one)
                ht = self.model.txns[r['badhint'] % len(self.model.txns)]
                hr = ht.last_recs().get(oid)
                if hr is None or hr.kind == DATA:
                    hint = ht.tid
            st.restore(oid, tid, data, '', hint, t)
            mrecs.append(MRec(oid, DATA, data, None, strong, cls))
        if op.get('end') == 'abortV':
            st.tpc_vote(t)
            self.reads_in_flight()
            st.tpc_abort(t)
            return 'abort'
        mt = MTxn(None, status, user, desc, self.ext_bytes(ext), mrecs,
                  'restore')
        st.tpc_vote(t)
        got = self.tpc_finish(t)
        if got != tid:
            self.flag('restore-tid', 'tpc_finish returned %r for explicit '
                      'tid %r' % (got, tid))
        return self.committed(got, mt)

    # -- pack ----------------------------------------------------------------

    def pack_stop(self, t):
        from persistent.TimeStamp import TimeStamp
        import time as _t
        t = max(t, -2208988000.0)       # TimeStamp starts in 1900
        return TimeStamp(*_t.gmtime(t)[:5] + (t % 60,)).raw()

    def pack_time(self, op):
        """A pack time chosen relative to the committed transactions."""
        from persistent.TimeStamp import TimeStamp
        txns = self.model.txns
        if 't' in op:
            return op['t']
        if not txns:
            return self.sim.clock.now
        k = op.get('at', -1)
        where = op.get('where', 'at')
        if where == 'before_all':
            return TimeStamp(txns[0].tid).timeTime() - 10.0
        if where == 'after_all':
            return TimeStamp(txns[-1].tid).timeTime() + 10.0
        i = k % len(txns)
        t = TimeStamp(txns[i].tid).timeTime()
        if where == 'between' and i + 1 < len(txns):
            t2 = TimeStamp(txns[i + 1].tid).timeTime()
            return (t + t2) / 2
        if where == 'just_before':
            return t - 1e-6
        if where == 'just_after':
            return t + 1e-6
        return t

    def reach(self, model, bound):
        """oids reachable from the root in the state of `model` seen with
        bound `bound` (revisions with tid < bound), by the references the
        generator put in; plus the dangling references met."""
        seen = set()
        dangling = set()
        todo = [z64]
        while todo:
            oid = todo.pop()
            if oid in seen:
                continue
            sb = model.state_before(oid, bound)
            if sb is None or sb[1].kind == UNCREATE:
                dangling.add(oid)
                continue
            seen.add(oid)
            todo.extend(sb[1].refs)
        return seen, dangling

    def lost_class(self, pre, oid, bound, gc):
        """Names the one known way FileStorage's gc loses (revisions of) an
        object: it was unreachable from the root at the pack time and a
        later state references it again."""
        if not gc or self.kind != 'file':
            return ''
        at_t, _ = self.reach(pre, bound)
        if oid in at_t:
            return ''
        return '/unreachable-at-T'

    def op_pack(self, op):
        from ZODB.serialize import referencesf
        st = self.st
        m = self.model
        t = max(self.pack_time(op), -2208988000.0)
        stop = self.pack_stop(t)
        gc = op.get('gc')
        eff_gc = gc if gc is not None else self.opts.get('pack_gc', True)
        if self.kind == 'mapping':
            eff_gc = True if gc is None else gc
            # MappingStorage's sweep follows the references of every
            # remaining revision and mutates before it fails on a dangling
            # one -- an application error; such histories are not packed
            have = {o for o in m.oids() if m.revisions(o)}
            for tt in m.txns:
                for r in tt.recs:
                    if any(x not in have for x in r.refs):
                        return 'skip-dangling'
        path = self.path
        if self.kind.startswith('demo'):
            # a changes layer given to the constructor is packed without
            # garbage collection (one made by the constructor is collected
            # on its own and refuses references into the base: C16's
            # 'demopack' covers that)
            if self.demo_kinds[1] == 'default':
                return 'skip'
            eff_gc = False if gc is None else gc
            path = '/sim/Changes.fs' if self.demo_kinds[1] == 'file' \
                else None
        pre = Log(m.txns)
        info = {'stop': stop, 'gc': eff_gc, 'raised': None, 'changed': False,
                'pre': pre, 't': t}
        self.last_pack = info
        before = self.sim.fs.read_bytes(path) \
            if path and (self.kind == 'file' or
                         self.kind.startswith('demo')) \
            and self.sim.fs.exists(path) else None
        try:
            if gc is None:
                st.pack(t, referencesf)
            else:
                st.pack(t, referencesf, gc=gc)
            # a pack that frees nothing leaves the file (and its back
            # pointers) as it is
            info['rewritten'] = before is None or \
                self.sim.fs.read_bytes(path) != before
        except Exception as e:      # noqa: B902
            info['raised'] = e
            # a pack that cannot complete leaves the database unchanged
            bad = sweep(st, m, self.caps, tag='after failed pack: ')
            for name, b in bad[:3]:
                self.flag('failed-pack-changed:' + name, b)
            return 'pack-raises:' + type(e).__name__
        self.verify_pack(info)
        return 'pack'

    def verify_pack(self, info):
        """C07: compare the packed storage with the model before the pack
        and adopt what legitimately remains as the new model."""
        st = self.st
        pre = info['pre']
        stop = info['stop']
        gc = info['gc']
        bound = p64(u64(stop) + 1)
        later = [t for t in pre.txns if t.tid > stop]
        # K: objects reachable from the root in the state at T or any later
        # state (gc), or every object (no gc)
        if gc:
            K = set()
            dangling = set()
            for b in [bound] + [p64(u64(t.tid) + 1) for t in later]:
                r, d = self.reach(pre, b)
                K |= r
                dangling |= d
        else:
            K = set(pre.oids())
            dangling = set()
        info['K'] = K
        # what the storage holds now
        try:
            it = st.iterator()
            got = []
            for tr in it:
                ext = getattr(tr, 'extension_bytes', None)
                if ext is None:
                    ext = self.ext_bytes(getattr(tr, 'extension', {}))
                got.append((tr.tid, tr.status, tr.user, tr.description, ext,
                            [(r.oid, r.data) for r in tr]))
            if hasattr(it, 'close'):
                it.close()
        except Exception as e:      # noqa: B902
            self.flag('pack-iterator', 'iterating the packed storage raised '
                      '%s: %s' % (type(e).__name__, str(e)[:80]))
            raise Violation('pack-iterator', str(e))
        new_txns = []
        by_tid = {t.tid: t for t in pre.txns}
        seen_tids = set()
        # a demo storage packs its changes layer only: what the base holds
        # stays as it is, whatever the pack time
        base_tids = {t.tid for t in self.base_driver.model.txns} \
            if self.kind.startswith('demo') else set()
        for tid, status, user, desc, ext, recs in got:
            mt = by_tid.get(tid)
            if mt is None:
                self.flag('pack-invents', 'transaction %r appeared' % tid)
                continue
            seen_tids.add(tid)
            if tid in base_tids:
                want = [(r.oid, r.data) for r in mt.recs]
                if status != mt.status or (
                        sorted(recs, key=_k) != sorted(want, key=_k)
                        if self.caps.get('iter_sorted') else recs != want):
                    self.flag('pack-changed-base', 'transaction %r of the '
                              'base reads differently after a pack through '
                              'the demo storage' % tid)
                new_txns.append(mt)
                continue
            if (user, desc) != (mt.user, mt.desc) or \
                    _ext(ext) != _ext(mt.ext):
                self.flag('pack-metadata', 'metadata of %r changed' % tid)
            if tid > stop:
                if status != mt.status:
                    self.flag('pack-later-txn', 'status of %r changed' % tid)
                want = [(r.oid, r.data) for r in mt.recs]
                if sorted(recs, key=_k) != sorted(want, key=_k) if \
                        self.caps.get('iter_sorted') else recs != want:
                    self.flag('pack-later-txn', 'records of transaction %r '
                              'after the pack time changed' % tid)
                new_txns.append(mt)
                continue
            # packed area: records must be a subset of the original ones
            last = mt.last_recs()
            kept = []
            for oid, data in recs:
                r = last.get(oid)
                if r is None or r.data != data:
                    self.flag('pack-invents', 'record of %r in %r is not '
                              'an original record' % (oid, tid))
                    continue
                nr = r.copy()
                if nr.kind == BACK and info.get('rewritten', True):
                    nr.kind = DATA
                    nr.src_tid = None
                kept.append(nr)
            nt = MTxn(tid, status, mt.user, mt.desc, mt.ext, kept, mt.kind)
            if kept != [] or recs == []:
                new_txns.append(nt)
            if len(kept) != len(mt.recs):
                info['changed'] = True
        # of several kept revisions of one oid in the packed area only the
        # newest is promised to queries; older ones serve back pointers
        newest = {}
        for nt in new_txns:
            if nt.tid <= stop and nt.tid not in base_tids:
                for r in nt.recs:
                    newest[r.oid] = r
        for nt in new_txns:
            if nt.tid <= stop and nt.tid not in base_tids:
                for r in nt.recs:
                    if newest[r.oid] is not r:
                        r.shadow = True
        for t in pre.txns:
            if t.tid in base_tids and t.tid not in seen_tids:
                self.flag('pack-changed-base', 'transaction %r of the base '
                          'is gone after a pack through the demo storage'
                          % t.tid)
        for t in later:
            if t.tid not in seen_tids:
                self.flag('pack-later-txn', 'transaction %r after the pack '
                          'time is gone' % t.tid)
        if len(got) != len(pre.txns):
            info['changed'] = True
        newm = Log(new_txns)
        # must-keep: for every k in K and every bound > stop the answers of
        # the model before the pack still hold
        bounds = [bound] + [p64(u64(t.tid) + d) for t in later
                            for d in (0, 1)] + [b'\x7f' + b'\xff' * 7]
        views = [pre] + ([pre.shadow_view()] if pre.has_shadow() else [])
        for oid in sorted(K):
            for b in bounds:
                if b <= stop:
                    continue
                got_ = q(st.loadBefore, oid, b)
                for view in views:
                    want = view.x_loadBefore(oid, b)
                    if want[0] == 'ok':
                        ok = got_ == ('ok', want[1:])
                    elif want[0] in ('none', 'gone'):
                        # the object did not exist (yet) at this bound
                        ok = got_ in (('ok', None), ('key',))
                    else:
                        ok = got_[0] == 'key'
                    if ok:
                        break
                want = pre.x_loadBefore(oid, b)
                if not ok:
                    self.flag('pack-lost' + self.lost_class(pre, oid, bound,
                                                            gc),
                              'loadBefore(%r, %r) after pack(%r,'
                              ' gc=%s): got %r, before the pack %r'
                              % (oid, b, stop, gc, _s(got_), _s(want)))
                    break
                if want[0] == 'ok' and self.caps.get('loadserial', True):
                    g2 = q(st.loadSerial, oid, want[2])
                    if g2 != ('ok', want[1]):
                        self.flag('pack-lost' + self.lost_class(pre, oid,
                                                                bound, gc),
                                  'loadSerial(%r, %r) after '
                                  'pack: got %r' % (oid, want[2], _s(g2)))
                        break
        # dangling-reference scan of the packed state: nothing reachable
        # from the root now may be missing, unless it was missing before
        r_after, d_after = self.reach(newm, b'\x7f' + b'\xff' * 7)
        r_before, d_before = self.reach(pre, b'\x7f' + b'\xff' * 7)
        for oid in sorted(d_after - d_before):
            self.flag('pack-dangling' + self.lost_class(pre, oid, bound, gc),
                      'after pack(%r, gc=%s) object %r is '
                      'referenced from the root but gone' % (stop, gc, oid))
        # the newest transaction may have been dropped as garbage: until the
        # storage is reopened lastTransaction() may still name it
        newm.alt_last = self.model.alt_last
        if newm.last_tid() != pre.last_tid():
            newm.alt_last = pre.last_tid()
        self.model = newm
        info['new'] = newm

    def op_reopen(self, op):
        if not self.caps.get('reopen'):
            return 'skip'
        self.close()
        if op.get('drop_index'):
            self.sim.fs.unlink_quiet(self.path + '.index')
        try:
            self.open()
        except Exception as e:      # noqa: B902
            self.flag('reopen-raises', 'reopening the storage raised %s: %s'
                      % (type(e).__name__, str(e)[:80]))
            raise Violation('reopen-raises', str(e))
        self.model.alt_last = None
        self.full_sweep('after reopen: ')
        return 'reopen'

    def op_clock(self, op):
        c = self.sim.clock
        mode = op['mode']
        if mode == 'stall':
            c.stall = op.get('n', 5)
        elif mode == 'back':
            c.advance(-op.get('s', 3600))
        elif mode == 'jump':
            c.advance(op.get('s', 86400))
        elif mode == 'tiny':
            c.tick = op.get('tick', 1e-9)
        return 'clock'

    def op_new_oid(self, op):
        oid = self.st.new_oid()
        present = self.model.oids()
        if oid in self.issued:
            self.flag('oid-reissued', 'new_oid returned %r twice' % oid)
        if oid in present:
            cur = self.model.current(oid)
            fam = '/uncreated-object' if (cur is not None and
                                          cur[1].kind == UNCREATE) else ''
            self.flag('oid-exists' + fam, 'new_oid returned %r which has '
                      'records' % oid)
        self.issued.append(oid)
        return 'oid'

    def op_sweep(self, op):
        self.full_sweep('sweep: ')
        return 'sweep'

    def reads_in_flight(self):
        """Other threads keep reading while a voted transaction is in
        flight: loads through the storage's reader pool of the most
        recently written objects, which lie near the end of the file (the
        pooled handle's read-ahead then holds the in-flight bytes)."""
        seen = set()
        for t in reversed(self.model.txns[-3:]):
            for r in t.recs:
                if r.oid in seen:
                    continue
                seen.add(r.oid)
                try:
                    self.st.load(r.oid)
                    self.st.loadBefore(r.oid, t.tid)
                except Exception:       # noqa: B902 -- judged by the sweeps
                    pass

    def op_wrong(self, op):
        """Calls made with a transaction that is not the one being
        committed must be rejected without effect (C05)."""
        st = self.st
        foreign = TransactionMetaData(b'f', b'f', {})
        oid = oid_of(op.get('o', 1))
        calls = [
            ('store', lambda: st.store(oid, z64, b'x', '', foreign)),
            ('tpc_vote', lambda: st.tpc_vote(foreign)),
            ('tpc_finish', lambda: st.tpc_finish(foreign)),
        ]
        if self.caps.get('delete'):
            calls.append(('deleteObject',
                          lambda: st.deleteObject(oid, z64, foreign)))
        if self.caps.get('restore'):
            calls.append(('restore', lambda: st.restore(
                oid, p64(5), b'x', '', None, foreign)))
        if self.caps.get('undo'):
            calls.append(('undo', lambda: st.undo(undo_id(p64(5)), foreign)))
        calls.append(('checkCurrentSerialInTransaction',
                      lambda: st.checkCurrentSerialInTransaction(
                          oid, z64, foreign)))
        for name, fn in calls:
            try:
                fn()
            except StorageTransactionError:
                continue
            except Exception as e:     # noqa: B902
                self.flag('wrong-txn', '%s with a foreign transaction '
                          'raised %s' % (name, type(e).__name__))
            else:
                self.flag('wrong-txn', '%s with a foreign transaction was '
                          'accepted' % name)
        try:
            st.tpc_abort(foreign)
        except Exception as e:         # noqa: B902
            self.flag('wrong-txn', 'tpc_abort(foreign) raised %s'
                      % type(e).__name__)
        return 'wrong'

    # -- checks --------------------------------------------------------------

    def full_sweep(self, tag=''):
        bad = sweep(self.st, self.model, self.caps, tag=tag)
        for name, b in bad:
            self.flag('query:' + name, b)
        return bad

    def check_file(self, tag=''):
        """Compare the data file, parsed independently, with the model."""
        if self.kind != 'file':
            return
        from . import fsparse
        b = self.sim.fs.read_bytes(self.path)
        try:
            hist, end, problems = fsparse.to_history(b)
        except fsparse.Bad as e:
            self.flag('file-structure', '%s%s' % (tag, e))
            return
        for p in problems:
            self.flag('file-structure', tag + p)
        if end != len(b):
            self.flag('file-structure', '%s%d bytes after the last complete '
                      'transaction' % (tag, len(b) - end))
        want = [(t.tid, t.status, t.user, t.desc, t.ext,
                 [(r.oid, r.data) for r in t.recs]) for t in self.model.txns]
        if hist != want:
            n = 0
            while n < min(len(hist), len(want)) and hist[n] == want[n]:
                n += 1
            self.flag('file-vs-model', '%sparsed file differs from the model '
                      'at transaction #%d (file has %d, model %d)'
                      % (tag, n, len(hist), len(want)))


def model_resolver(cls, undone, cur, pre):
    """Model-side resolution for undo: (old=undone, committed=cur,
    new=pre)."""
    if cls not in RESOLVABLE:
        return None

    def st_of(rec):
        if isinstance(rec.data, tuple):     # resolved earlier in this
            return rec.data[1]              # undo transaction
        return objs.decode_record(rec.data)[1]
    try:
        merged = objs.merge_states(st_of(undone), st_of(cur), st_of(pre))
    except Exception:       # noqa: B902
        return None
    return ('resolved', objs.canon_state(merged), cls)


def check_undo_records(plan, actual, flag):
    """Compare the records an undo transaction wrote (`actual`: list of
    (oid, data) in order) with the model's plan; returns the MRecs to put
    into the model."""
    mrecs = []
    if [a[0] for a in actual] != [p[0] for p in plan]:
        flag('undo-records', 'the undo transaction wrote records for %r, '
             'the model planned %r' % ([a[0] for a in actual],
                                       [p[0] for p in plan]))
        return None
    for (oid, kind, data, src, refs, cls, how), (aoid, adata) in zip(plan,
                                                                     actual):
        if kind == DATA and isinstance(data, tuple):
            ok = False
            try:
                _, state = objs.decode_record(adata)
                ok = objs.canon_state(state) == data[1]
            except Exception:       # noqa: B902
                ok = False
            if not ok:
                flag('undo-resolve', 'undo record of %r is not the three-way '
                     'merge (undone, current, previous)' % (oid,))
            refs = tuple(k[1] for k in _markers(data[1])
                         if k[0] in ('oc', 'o'))
            mrecs.append(MRec(oid, DATA, adata, None, refs, cls))
        else:
            if adata != data:
                flag('undo-records', 'undo record of %r does not carry the '
                     'planned state' % (oid,))
            mrecs.append(MRec(oid, kind, data, src, refs or (), cls))
    return mrecs


def _ext(b):
    from .sweep import ext_dict
    return ext_dict(b) if isinstance(b, bytes) else (b or {})


def _k(x):
    return x[0]


def _s(x):
    from .sweep import _short
    return _short(x)


def _markers(x, out=None):
    if out is None:
        out = []
    if isinstance(x, dict):
        for v in x.values():
            _markers(v, out)
    elif isinstance(x, (list, tuple)):
        for v in x:
            _markers(v, out)
    elif type(x).__name__ == '_Marker':
        out.append(x.key)
    return out


def _open_undo(plan):
    return any('either' in p[6] for p in plan)
