"""C04 -- the storage answers every revision query from the committed
history (DESIGN §6 C04)."""

import random

from .. import ctx
from .. import gen as G
from ..hist import Driver
from ..hist import Violation

ID = 'C04'
LEVEL = 'exploration'
RULE = ('one run = one seeded history (stores, conflicts, deletes, undos, '
        'restores with explicit ids, aborts, metadata of all lengths, '
        'close/reopen with and without index, clock stall/step-back/jump) on '
        'one storage kind under a per-run buffer size, executed in lock step '
        'with the reference model; non-trivial = committed >= 2 '
        'transactions; distinct = hash of (kind, outcome sequence, final '
        'model shape)')
BUDGET = {'quick': {'runs': 6000, 'wall': 240},
          'thorough': {'runs': 350000, 'wall': 1200}}
ASSUMPTIONS = [
    'reading an un-created revision may raise POSKeyError or return None',
    'the data_txn hint of an iterator record only has to name a revision '
    'of that oid with equal bytes',
]
SHRINK = ['ops', 'base_ops']

KINDS = ['file', 'file', 'file', 'file', 'mapping', 'demo:mapping:mapping',
         'demo:file:mapping', 'demo:file:file']


def gen_case(seed, tier):
    r = random.Random(seed)
    kind = r.choice(KINDS)
    base_ops = []
    if kind.startswith('demo'):
        bk = kind.split(':')[1]
        base_ops = G.gen_history(
            ctx.subseed(seed, 'base'), bk, n=r.randint(0, 4),
            weights={'new_oid': 0, 'wrong': 0, 'reopen': 0, 'rtxn': 0,
                     'delete': 0, 'undo': 0})
    case = {
        'kind': kind, 'base_ops': base_ops,
        'bufsize': r.choice((16, 64, 512, 4096, 8192, 65536)),
        'tick': r.choice((0.37, 0.37, 1e-7, 45.0)),
        'ops': G.gen_history(ctx.subseed(seed, 'hist'),
                             'demo' if kind.startswith('demo') else kind,
                             weights=({'new_oid': 0, 'undo': 0, 'delete': 0,
                                       'rtxn': 0, 'reopen': 0}
                                      if kind.startswith('demo')
                                      else {'new_oid': 0})),
        'sweep_p': r.choice((0.0, 0.3, 1.0)),
    }
    return case


def run(case):
    sim = ctx.activate(ctx.Sim(case['seed'], bufsize=case['bufsize'],
                               clock={'tick': case['tick']}))
    d = Driver(sim, case['kind'],
               opts={'base_ops': case.get('base_ops', [])}
               if case['kind'].startswith('demo') else None)
    r = random.Random(ctx.subseed(case['seed'], 'sweeps'))
    try:
        for op in case['ops']:
            out = d.execute(op)
            if out == 'commit' and r.random() < case.get('sweep_p', 0):
                d.full_sweep('mid: ')
                d.check_file('mid: ')
        d.full_sweep('end: ')
        d.check_file('end: ')
        if d.caps.get('reopen'):
            d.execute({'op': 'reopen'})
            d.check_file('after reopen: ')
            d.execute({'op': 'reopen', 'drop_index': True})
    except Violation:
        pass
    finally:
        try:
            d.close()
        except Exception:
            pass
    ncommit = len(d.model.txns)
    key = None
    if ncommit >= 2:
        key = '%s|%s|%d' % (case['kind'], ','.join(d.outcomes),
                            sum(len(t.recs) for t in d.model.txns))
    stats = {'sim_time_s': sim.clock.elapsed(), 'commits': ncommit,
             'kind:' + case['kind']: 1}
    for o in d.outcomes:
        stats['outcome:' + o] = stats.get('outcome:' + o, 0) + 1
    return {
        'violations': [{'oracle': o, 'detail': x} for o, x in d.viol[:20]],
        'stats': stats,
        'keys': [key] if key else [],
        'evals': 1,
        'sample': {'kind': case['kind'], 'ops': case['ops'],
                   'outcomes': d.outcomes},
        'digest': sim.digest(d.outcomes, d.viol),
    }


gen = gen_case

LEVEL_TEXT = ('seeded search over histories: each run executes one generated '
              'history of real FileStorage/MappingStorage code on the '
              'simulated disk and clock in lock step with a single-copy '
              'reference model; every query the property names is compared '
              'at every tid boundary, the data file is re-parsed by an '
              'independent decoder, and the storage is closed and reopened '
              '(with and without its index).  Sampling, not proof.')
LEVEL_NOTE = ('trusted: the reference model (zsim/model.py), the independent '
              'parser (zsim/fsparse.py), CPython io buffering over the '
              'simulated raw file; histories are bounded (<= 12 ops, <= 14 '
              'oids); one record per oid and transaction; undo of a '
              'multi-undo transaction with overlapping oids is not generated')
TECHNIQUE = ('deterministic simulation: seeded histories + simulated disk '
             'and clock faults, lock-step reference model')
