"""C16 -- a demo storage never modifies its base and reads as
changes-over-base (DESIGN §6 C16)."""

import random

from .. import ctx
from .. import gen as G
from ..hist import Driver
from ..hist import Violation
from ..sweep import sweep

ID = 'C16'
LEVEL = 'exploration'
RULE = ('one run = a seeded base history (FileStorage on the simulated '
        'disk or MappingStorage) and a seeded history applied through a '
        'DemoStorage on top (changes: MappingStorage, the default '
        'temporary changes, or FileStorage), optionally through a second '
        'pushed layer and after a pop; stores with current and stale '
        'serials on objects of either layer (conflicts, resolution), '
        'aborts, undo where the changes storage supports it, new_oid with '
        'an adversarial id source, pack, clock stall/step-back/jump; '
        'oracle: the full query sweep against the single-copy model of '
        'base + changes (incl. end ids that join the layers), store '
        'outcomes, id freshness, and the base is byte-identical / '
        'sweep-identical afterwards; a blob arm (8 %): a blob-enabled '
        'FileStorage base with several blob revisions, wrapped read-only; '
        'storage-level storeBlob with current and stale serials on blobs '
        'of either layer, aborts after store/vote, new ids, loadBlob / '
        'openCommittedBlobFile of every revision of both layers, base '
        'data file and blob directory compared after every op; non-trivial = >= 1 base and >= 2 demo '
        'commits; distinct = (kinds, outcome sequence)')
RULE += ('  '
         'Later additions: packs anywhere in demo histories with '
         'explicit changes layers (verified against a pack of the '
         'changes layer alone, base transactions must read unchanged, '
         'the lock-step comparison goes on); a pack through the demo '
         'storage may be refused by the collector (KeyError) or as '
         'already packed, any other exception is a violation. ')
BUDGET = {'quick': {'runs': 10000, 'wall': 300, 'chunk': 25},
          'thorough': {'runs': 800000, 'wall': 1200, 'chunk': 100}}
ASSUMPTIONS = [
    'closing a DemoStorage closes its base, and closing a FileStorage '
    'saves an index: "base unchanged" is decided on the base data file '
    'bytes and on the base\'s own query sweep, not on side files',
]
SHRINK = ['ops', 'base_ops']


def gen(seed, tier):
    r = random.Random(seed)
    if r.random() < 0.08:
        from . import c16blob
        return c16blob.gen(ctx.subseed(seed, 'blob'), tier)
    bk = r.choice(('mapping', 'file', 'file'))
    ck = r.choice(('mapping', 'default', 'file', 'file'))
    noids = r.choice((2, 3, 5, 8))
    base_ops = G.gen_history(
        ctx.subseed(seed, 'base'), bk, n=r.randint(1, 6), noids=noids,
        weights={'new_oid': 0, 'wrong': 0, 'clock': 1, 'reopen': 0,
                 'rtxn': 0, 'undo': 4 if bk == 'file' else 0,
                 'delete': 0})
    w = {'new_oid': 8, 'wrong': 2, 'clock': 6, 'reopen': 0, 'rtxn': 0,
         'delete': 0, 'undo': 14 if ck == 'file' else 0, 'txn': 60}
    if ck != 'default':
        # packs anywhere in the history (a changes layer given to the
        # constructor is packed without garbage collection; the lock-step
        # comparison goes on afterwards, against what a pack of the changes
        # layer alone may have removed)
        w['pack'] = 6
    ops = G.gen_history(ctx.subseed(seed, 'demo'), 'demo', n=r.randint(2, 9),
                        noids=noids, weights=w)
    for op in ops:
        if op['op'] == 'pack':
            g = r.choice((None, None, None, False, True))
            if g is not None:
                op['gc'] = g
    for lst in (base_ops, ops):
        for op in lst:
            for rec in op.get('recs', ()):
                if rec.get('size', 0) > 3000:
                    rec['size'] = 300
            m = op.get('meta')
            if m:
                for k in list(m):
                    if m[k] > 4000:
                        m[k] = 40
    if r.random() < 0.25:
        ops.insert(r.randrange(len(ops) + 1), {'op': 'demopack'})
    return {'bk': bk, 'ck': ck, 'base_ops': base_ops, 'ops': ops,
            'adversarial': r.random() < 0.6,
            'push': r.random() < 0.25,
            'bufsize': r.choice((64, 512, 8192, 65536)),
            'tick': r.choice((0.37, 0.37, 1e-7, 45.0)), 'tier': tier,
            'changes_gc': r.random() < 0.7}


def run(case):
    if case.get('arm') == 'blob':
        from . import c16blob
        return c16blob.run(case)
    from ZODB.serialize import referencesf
    sim = ctx.activate(ctx.Sim(case['seed'], bufsize=case['bufsize'],
                               clock={'tick': case['tick']}))
    kind = 'demo:%s:%s' % (case['bk'], case['ck'])
    try:
        d = Driver(sim, kind, opts={'base_ops': case['base_ops'],
                                    'changes_pack_gc':
                                    case.get('changes_gc', False)})
    except Violation as e:
        return {'violations': [{'oracle': 'base:' + e.oracle,
                                'detail': str(e.detail)}], 'stats': {},
                'keys': [], 'evals': 1, 'sample': None, 'digest': 'x'}
    bd = d.base_driver
    base_model = bd.model
    nbase = len(base_model.txns)
    base_bytes = sim.fs.read_bytes('/sim/Base.fs') \
        if case['bk'] == 'file' else None
    if case.get('adversarial'):
        r = random.Random(ctx.subseed(case['seed'], 'adv'))
        calls = [0]

        def adv(a, b):
            calls[0] += 1
            pool = sorted(int.from_bytes(o, 'big') for o in d.model.oids()) \
                + [int.from_bytes(o, 'big') for o in d.issued]
            if pool and calls[0] < 200 and r.random() < 0.8:
                return max(1, r.choice(pool) + r.choice((-1, 0, 0, 1)))
            return r.randint(a, b)
        sim.demo_randint = adv
    pushed = None
    tainted = False
    tainted_at = [None]
    try:
        for i, op in enumerate(case['ops']):
            if op['op'] == 'demopack':
                have = {o for o in d.model.oids() if d.model.revisions(o)}
                if b'\0' * 8 not in have or any(
                        x not in have for t in d.model.txns
                        for rr in t.recs for x in rr.refs):
                    # references to objects that exist in neither layer, or
                    # no root object: an application error, such histories
                    # are not packed
                    d.outcomes.append('demopack-skipped')
                    continue
                # objects reachable from the root (the rest is garbage a
                # pack may remove)
                live, _ = d.reach(d.model, b'\x7f' + b'\xff' * 7)
                live = sorted(live)
                before = [d.model.x_load(o) for o in live]
                try:
                    d.st.pack(sim.clock.now + 50, referencesf)
                    d.outcomes.append('demopack')
                except Exception as e:      # noqa: B902
                    # The garbage collection of a temporary changes layer
                    # follows references in that layer only and gives up
                    # (KeyError) at the first one that leads into the
                    # base; a storage packed to a later time before says
                    # so.  The property promises nothing about a pack
                    # succeeding, only that reads and the base stay as
                    # they were (checked below).  Anything else is a
                    # pack that cannot be done through the demo storage.
                    if isinstance(e, KeyError) or (
                            isinstance(e, ValueError)
                            and 'lready packed' in str(e)):
                        d.outcomes.append('demopack-refused:'
                                          + type(e).__name__)
                    else:
                        d.outcomes.append('demopack-raises:'
                                          + type(e).__name__)
                        d.flag('demo-pack-raises', 'pack through the demo '
                               'storage (changes: %s) raised %s: %s'
                               % (case['ck'], type(e).__name__, str(e)[:80]))
                        break
                # current state of every object is unaffected
                for oid, want in zip(live, before):
                    try:
                        got = ('ok',) + tuple(d.st.load(oid))
                    except KeyError:
                        got = ('key',)
                    except Exception as e:  # noqa: B902
                        got = ('err', type(e).__name__)
                    if got[:1] != want[:1] or (want[0] == 'ok'
                                               and got != want):
                        d.flag('pack-changed-reads', 'after pack through '
                               'the demo storage load(%r) gives %r, before '
                               '%r' % (oid, got[:1] + got[2:],
                                       want[:1] + want[2:]))
                        break
                # history queries may legitimately have lost old revisions
                # of the changes layer: stop the lock-step sweep here
                break
            if case.get('push') and i == len(case['ops']) // 2 \
                    and pushed is None:
                # a second layer: everything so far becomes "base"
                pushed = d.st
                d.st = d.st.push()
                d.issued = []       # a new storage object: a new session
                # (its changes layer is one made by the constructor)
                d.demo_kinds = (d.demo_kinds[0], 'default')
                d.outcomes.append('push')
            if op['op'] == 'undo' and not hasattr(d.st, 'undo'):
                continue        # e.g. after push(): default changes layer
            nv = len(d.viol)
            if op['op'] == 'undo' and tainted_at[0] is None and d.commit_log:
                # does the undo have to restore a revision that lives in
                # the base layer?
                base_tids = {t.tid for t in base_model.txns}
                for k in op['targets']:
                    tid = d.commit_log[k % len(d.commit_log)]
                    tt = d.model.txn(tid)
                    for rr in (tt.recs if tt is not None else ()):
                        pre = d.model.state_before(rr.oid, tid)
                        if pre is not None and pre[0] in base_tids:
                            tainted_at[0] = nv
            d.execute(op)
        else:
            d.full_sweep('end: ')
            if pushed is not None:
                # pop: the first demo layer again, minus what was done above
                pass
    except Violation:
        pass
    except Exception as e:          # noqa: B902
        import traceback
        d.flag('history-raises', '%s: %s | %s' % (
            type(e).__name__, str(e)[:80],
            ' / '.join(x.strip()[:70] for x in
                       traceback.format_exc().strip().splitlines()[-4:-1])))
    # the base is unchanged
    try:
        bad = sweep(bd.st, base_model, bd.caps, tag='base afterwards: ')
        for name, msg in bad[:3]:
            d.flag('base-changed:' + name, msg)
        if len(base_model.txns) != nbase:
            d.flag('harness', 'base model changed')
        if base_bytes is not None and \
                sim.fs.read_bytes('/sim/Base.fs') != base_bytes:
            d.flag('base-file-changed', 'the base data file was modified')
    except Exception as e:          # noqa: B902
        d.flag('base-changed:raises', '%s: %s' % (type(e).__name__,
                                                  str(e)[:80]))
    try:
        (pushed or d.st).close()
    except Exception:       # noqa: B902
        pass
    if tainted_at[0] is not None:
        k = tainted_at[0]
        d.viol[k:] = [('after-undo-restoring-base-revision/' + o, x)
                      for o, x in d.viol[k:]]
    ndemo = len(d.model.txns) - nbase
    stats = {'sim_time_s': sim.clock.elapsed(), 'base_commits': nbase,
             'demo_commits': ndemo, 'kinds:%s/%s' % (case['bk'],
                                                     case['ck']): 1}
    for o in d.outcomes:
        k = 'outcome:' + o.split(':')[0]
        stats[k] = stats.get(k, 0) + 1
    return {
        'violations': [{'oracle': o, 'detail': x} for o, x in d.viol[:20]],
        'stats': stats,
        'keys': ['%s/%s|%s' % (case['bk'], case['ck'],
                               ','.join(d.outcomes))]
        if nbase >= 1 and ndemo >= 2 else [],
        'evals': 1,
        'sample': {'bk': case['bk'], 'ck': case['ck'],
                   'base_ops': case['base_ops'], 'ops': case['ops'],
                   'outcomes': d.outcomes},
        'digest': sim.digest(d.outcomes, d.viol),
    }


LEVEL_TEXT = ('seeded search over pairs of histories (base, changes) and '
              'layer configurations of real DemoStorage code over '
              'simulated FileStorage/MappingStorage layers, with clock '
              'faults and an adversarial id source; every query is '
              'compared with the single-copy model of base + changes and '
              'the base is compared with itself before and after.')
LEVEL_NOTE = ('blob-capable layers are exercised by C13; after a pack '
              'through the demo storage only current loads and the base '
              'are compared; bounded histories (<= 6 base + <= 9 demo '
              'ops); trusted: reference model')
TECHNIQUE = ('deterministic simulation: seeded layered histories with '
             'clock faults and adversarial randomness, lock-step '
             'single-copy reference model, base image comparison')
