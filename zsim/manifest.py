"""Generate /verif/MANIFEST.json from the checks that exist (bin/zsim-manifest).

Each check module carries its own MANIFEST_TEXT / LEVEL_NOTE / TECHNIQUE."""

import importlib
import json
import os

from . import runner

NOT_APPLICABLE = [
    {"property_id": "C14",
     "reason": "pure function of one in-memory input graph (quantifier: "
               "inputs only): no schedule, clock, fault, crash or restart "
               "can change what ObjectWriter/ObjectReader/referencesf "
               "compute; deciding it is input generation, not deterministic "
               "simulation (DESIGN.md section 7)"},
    {"property_id": "C19",
     "reason": "sequential in-memory data structure compared with a sorted "
               "dict over operation sequences (quantifier: inputs only); no "
               "nondeterminism or fault is involved; the save/load half "
               "under cut files is covered by C09 (DESIGN.md section 7)"},
]


def build():
    checks = []
    claimed = []
    for cid in runner.CHECKS:
        try:
            mod = importlib.import_module('zsim.checks.' + cid.lower())
        except ImportError:
            continue
        claimed.append(cid)
        checks.append({
            "property_id": cid,
            "quick_cmd": "bin/zsim check %s --tier quick" % cid,
            "thorough_cmd": "bin/zsim check %s --tier thorough" % cid,
            "evidence_file": "/verif/evidence/%s.json" % cid,
            "replay_cmd_template": "bin/zsim replay {path}",
            "engine": "zsim",
            "level_claimed": {
                "category": mod.LEVEL,
                "text": mod.LEVEL_TEXT,
                "design_ref": "DESIGN.md section 6, %s" % cid,
            },
            "level_note": mod.LEVEL_NOTE,
            "technique": mod.TECHNIQUE,
        })
    na = list(NOT_APPLICABLE)
    for cid in runner.CHECKS:
        if cid not in claimed:
            na.append({"property_id": cid,
                       "reason": "not claimed yet: the check for this "
                                 "property is designed (DESIGN.md section "
                                 "6) but not built at this commit"})
    return {
        "version": 1,
        "setup_cmd": "bin/zsim selftest smoke",
        "hooks": {
            "guard": "none (no source hooks: every seam is a module global "
                     "rebound by the harness at import time; ZSIM_REPO_SRC "
                     "selects the tree, default /repo/src)",
            "enable": "nothing to enable: bin/zsim imports ZODB from "
                      "/repo/src (the current working tree) and rebinds "
                      "open/os/fsync/LockFile/time/Lock/RLock/Condition/"
                      "random in the ZODB modules (zsim/seams.py)",
            "baseline_off_cmd": "cd /repo && /venv/bin/python -m pytest -ra "
                                "-q -p no:cacheprovider --timeout=900 "
                                "--continue-on-collection-errors",
            "source_commits": [],
            "add_only": True,
        },
        "engines": [{
            "name": "zsim",
            "path": "/verif/zsim",
            "serves_properties": claimed,
            "kind_free_text": "deterministic simulation with fault "
                              "injection: in-memory inode file system with "
                              "op log and crash images, fault plans at the "
                              "raw I/O call, simulated clock, baton-passing "
                              "seeded scheduler over real threads, reference "
                              "model and independent Data.fs parser; pure "
                              "Python on /venv/bin/python",
        }],
        "checks": checks,
        "not_applicable": na,
        "notes": "Exit codes of every check: 0 = held on everything "
                 "explored (KNOWN-FINDING lines possible), 1 = VIOLATION "
                 "(replay confirmed in a fresh process), 2 = HARNESS-ERROR. "
                 "fix: commits in /repo and known findings are listed in "
                 "/verif/known_findings.json.",
    }


def main():
    m = build()
    path = os.path.join(runner.ROOT, 'MANIFEST.json')
    with open(path, 'w') as f:
        json.dump(m, f, indent=1)
        f.write('\n')
    print('wrote', path, 'claimed:', ' '.join(c['property_id']
                                              for c in m['checks']))


if __name__ == '__main__':
    main()
