"""Minimisation of a failing case: ddmin over its list-valued fields, then
simplification of individual ops, keeping the same violation class."""

import copy
import time


def _fails(mod, case, oracle):
    from . import runner
    try:
        res = runner.run_one(mod, case)
    except BaseException:       # noqa: B902 -- a crash is not "the same"
        return False
    return any(v['oracle'] == oracle for v in res.get('violations', ()))


def _get(case, path):
    x = case
    for p in path:
        x = x[p]
    return x


def _set(case, path, value):
    x = case
    for p in path[:-1]:
        x = x[p]
    x[path[-1]] = value


def ddmin_list(mod, case, path, oracle, deadline):
    items = list(_get(case, path))
    n = 2
    while len(items) >= 1 and time.time() < deadline:
        chunk = max(1, len(items) // n)
        removed = False
        i = 0
        while i < len(items) and time.time() < deadline:
            cand = items[:i] + items[i + chunk:]
            c2 = copy.deepcopy(case)
            _set(c2, path, cand)
            if _fails(mod, c2, oracle):
                items = cand
                case = c2
                removed = True
            else:
                i += chunk
        if not removed:
            if chunk == 1:
                break
            n = min(len(items), n * 2)
    return case


def shrink(mod, case, violation, deadline):
    oracle = violation['oracle']
    case = copy.deepcopy(case)
    paths = [tuple(p) if isinstance(p, (list, tuple)) else (p,)
             for p in getattr(mod, 'SHRINK', ['ops'])]
    for rounds in range(2):
        for path in paths:
            try:
                _get(case, path)
            except (KeyError, IndexError, TypeError):
                continue
            case = ddmin_list(mod, case, path, oracle, deadline)
        # second level: lists inside ops (records of a transaction)
        for path in paths:
            try:
                ops = _get(case, path)
            except (KeyError, IndexError, TypeError):
                continue
            for i, op in enumerate(ops):
                if not isinstance(op, dict):
                    continue
                for k, v in list(op.items()):
                    if time.time() > deadline:
                        return case
                    if isinstance(v, list) and len(v) > 1:
                        case = ddmin_list(mod, case, path + (i, k), oracle,
                                          deadline)
                    elif k in ('meta',) and v:
                        c2 = copy.deepcopy(case)
                        _get(c2, path)[i].pop(k)
                        if _fails(mod, c2, oracle):
                            case = c2
        simp = getattr(mod, 'simplify', None)
        if simp is not None:
            for c2 in simp(case):
                if time.time() > deadline:
                    return case
                if _fails(mod, c2, oracle):
                    case = c2
    return case
