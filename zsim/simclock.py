"""simclock -- the simulated wall clock and the `time` seam."""

import time as _time

from . import ctx

EPOCH = 1_600_000_000.0      # 2020-09-13; any fixed origin will do


class SimClock:

    def __init__(self, sim=None, start=EPOCH, tick=0.37, jitter=True):
        self.sim = sim
        self.now = start
        self.start = start
        self.tick = tick
        self.jitter = jitter
        self.stall = 0            # number of reads that return the same value
        self.reads = 0
        self.max_now = start
        self._rng = sim.rng('clock') if (sim is not None and jitter) else None

    def read(self):
        self.reads += 1
        t = self.now
        if self.stall > 0:
            self.stall -= 1
        else:
            d = self.tick
            if self._rng is not None:
                d *= self._rng.random() * 2
            self.now += d
            if self.now > self.max_now:
                self.max_now = self.now
        return t

    def advance(self, seconds):
        self.now += seconds
        if self.now > self.max_now:
            self.max_now = self.now

    def set(self, t):
        self.now = t
        if self.now > self.max_now:
            self.max_now = self.now

    def elapsed(self):
        return self.max_now - self.start


class FakeTime:
    """Stands in for the module `time` inside ZODB modules."""

    def __getattr__(self, name):
        return getattr(_time, name)

    def time(self):
        sim = ctx.CUR
        if sim is None:
            return _time.time()
        return sim.clock.read()

    def gmtime(self, *a):
        if a and a[0] is not None:
            return _time.gmtime(*a)
        sim = ctx.CUR
        if sim is None:
            return _time.gmtime()
        return _time.gmtime(sim.clock.read())

    def localtime(self, *a):
        if a and a[0] is not None:
            return _time.localtime(*a)
        sim = ctx.CUR
        if sim is None:
            return _time.localtime()
        return _time.localtime(sim.clock.read())

    def sleep(self, s):
        sim = ctx.CUR
        if sim is None:
            return _time.sleep(s)
        sim.clock.advance(s)
        if sim.sched is not None:
            sim.sched.yield_point('sleep', None)

    def monotonic(self):
        sim = ctx.CUR
        if sim is None:
            return _time.monotonic()
        return sim.clock.read()
