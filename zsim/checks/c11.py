"""C11 -- in-memory objects follow the outcome of their transaction (DESIGN
§6 C11)."""

import random

from .. import connshadow as CS

ID = 'C11'
LEVEL = 'exploration'
RULE = ('one run = one seeded program on one Connection (plus an observer '
        'connection) over FileStorage (simulated disk), MappingStorage or '
        'DemoStorage: modify custom objects / persistent mappings / '
        'persistent lists, create and attach (implicit add), conn.add '
        '(explicit), detach, commit, abort, commits that fail at a chosen '
        'phase (conflict made by the observer; a second participant failing '
        'in tpc_begin / commit / tpc_vote before or after the connection; '
        'an injected ENOSPC at a chosen raw write of the commit; an '
        'over-long note), close while joined and not, reopen; a plain-'
        'Python shadow predicts after every step the value, ownership '
        '(_p_oid/_p_jar), cleanliness and serial of every object and the '
        'exact set of records each commit stores; non-trivial = >= 1 failed '
        'or aborted transaction with new objects or >= 2 commits; distinct '
        '= op trace')
RULE += ('  '
         'Later additions: one run in five with an object cache of 1 '
         'or 3 objects (evictions at savepoints); 6 % of the runs: a '
         'multi-database arm (primary and secondary connections, which '
         'of them joins, close() inside the transaction must be '
         'refused without effect, reuse from the pool shows committed '
         'state only). ')
BUDGET = {'quick': {'runs': 12000, 'wall': 300, 'chunk': 25},
          'thorough': {'runs': 1200000, 'wall': 1200, 'chunk': 200}}
ASSUMPTIONS = [
    'four runs in five use an object cache large enough that nothing is '
    'evicted inside a transaction; the fifth uses cache_size 1 or 3 (the '
    'clean-up at a savepoint then evicts objects, also new ones it has '
    'just saved) and half of those do not look at the objects right '
    'after a savepoint (looking would re-activate them)',
    'an object that was a plain Python object (never added) keeps whatever '
    'attribute values it has after an abort; only ownership is checked',
]
SHRINK = ['ops', 'steps']


def gen_multi(r, tier):
    """A multi-database: the primary connection and a secondary one
    obtained through get_connection(); which of them joins the
    transaction, when close() is tried, how the transaction ends."""
    steps = []
    for _ in range(r.randint(1, 4)):
        steps.append({'mods': r.choice(('primary', 'secondary', 'secondary',
                                        'both', 'none')),
                      'new': r.random() < 0.3,
                      'close_inside': r.random() < 0.7,
                      'end': r.choice(('commit', 'abort', 'abort'))})
    return {'arm': 'multi', 'kind': r.choice(('file', 'mapping')),
            'steps': steps, 'ops': [], 'bufsize': 8192, 'tier': tier}


def run_multi(case):
    from ZODB.MappingStorage import MappingStorage
    from ZODB.POSException import ConnectionStateError
    from .. import ctx
    from .. import dbh
    from .. import objs
    sim = ctx.activate(ctx.Sim(case['seed'], bufsize=case['bufsize']))
    viol = []
    trace = []

    def flag(o, x):
        if len(viol) < 20:
            viol.append((o, x))
    dbs = {}
    main = dbh.make_db(sim, case['kind'], databases=dbs,
                       database_name='main')
    aux = dbh.make_db(sim, 'x', storage=MappingStorage('aux'),
                      databases=dbs, database_name='aux')
    want = {'a': 1, 'x': 2}
    counter = [10]
    try:
        A = dbh.Client(main, 'A')
        c = A.open()
        c.root()['a'] = objs.Cell(1)
        c.get_connection('aux').root()['x'] = objs.Cell(2)
        A.commit()
        A.close()
        for st in case['steps']:
            A = dbh.Client(main, 'A')       # a new user of the pool
            c = A.open()
            sec = c.get_connection('aux')
            # a reused pair of connections shows committed state only
            got = {'a': c.root()['a'].token, 'x': sec.root()['x'].token}
            if got != want:
                flag('reused-connection-state', 'a connection taken from '
                     'the pool reads %r, committed is %r' % (got, want))
            new = dict(want)
            if st['mods'] in ('primary', 'both'):
                counter[0] += 1
                c.root()['a'].token = new['a'] = counter[0]
            if st['mods'] in ('secondary', 'both'):
                counter[0] += 1
                sec.root()['x'].token = new['x'] = counter[0]
                if st['new']:
                    sec.root()['n%d' % counter[0]] = objs.Cell(0)
            joined = st['mods'] != 'none'
            closed = False
            if st['close_inside']:
                try:
                    c.close()
                    closed = True
                except ConnectionStateError:
                    if not joined:
                        flag('close-refused', 'close() outside a '
                             'transaction was refused')
                else:
                    if joined:
                        flag('close-inside-transaction-accepted',
                             'close() of the primary connection was '
                             'accepted while %s had joined the transaction'
                             % st['mods'])
                trace.append('close-%s' % ('ok' if closed else 'refused'))
                if not closed and joined:
                    # a refused close has no effect: the connections go on
                    # working in their transaction
                    try:
                        counter[0] += 1
                        c.root()['a'].token = new['a'] = counter[0]
                        counter[0] += 1
                        sec.root()['x'].token = new['x'] = counter[0]
                    except Exception as e:      # noqa: B902
                        flag('refused-close-has-effect', 'after close() '
                             'was refused (%s joined) changing an object '
                             'raises %s: %s' % (st['mods'],
                                                type(e).__name__,
                                                str(e)[:60]))
                        A.abort()
                        try:
                            c.close()
                        except Exception:   # noqa: B902
                            pass
                        break
            if st['end'] == 'commit':
                try:
                    A.commit()
                    want = new
                except Exception as e:      # noqa: B902
                    flag('commit-raises', '%s: %s' % (type(e).__name__,
                                                      str(e)[:80]))
                    A.abort()
            else:
                A.abort()
            trace.append('%s-%s' % (st['mods'], st['end']))
            if not closed:
                try:
                    c.close()
                except Exception as e:      # noqa: B902
                    flag('close-refused', 'close() after the transaction '
                         'ended raised %s: %s' % (type(e).__name__,
                                                  str(e)[:80]))
            # what is committed, seen by an independent pair
            B = dbh.Client(main, 'B')
            cb = B.open()
            got = {'a': cb.root()['a'].token,
                   'x': cb.get_connection('aux').root()['x'].token}
            if got != want:
                flag('committed-state', 'after %r a fresh connection reads '
                     '%r, expected %r' % (st, got, want))
            B.abort()
            B.close()
    except Exception as e:      # noqa: B902
        import traceback
        flag('program-raises', '%s: %s | %s' % (
            type(e).__name__, str(e)[:80],
            ' / '.join(x.strip()[:70] for x in
                       traceback.format_exc().strip().splitlines()[-5:-1])))
    finally:
        for d in (main, aux):
            try:
                d.close()
            except Exception:       # noqa: B902
                pass
    stats = {'sim_time_s': sim.clock.elapsed(), 'arm:multi-database': 1,
             'kind:' + case['kind']: 1}
    for t in trace:
        stats['multi:' + t] = stats.get('multi:' + t, 0) + 1
    return {'violations': [{'oracle': o, 'detail': x} for o, x in viol],
            'stats': stats,
            'keys': ['multi|%s|%s' % (case['kind'], ','.join(trace))],
            'evals': 1,
            'sample': {'arm': 'multi', 'steps': case['steps'],
                       'trace': trace},
            'digest': sim.digest(trace, viol)}


def gen(seed, tier):
    r = random.Random(seed)
    if r.random() < 0.06:
        return gen_multi(r, tier)
    kind = r.choice(('file', 'file', 'mapping', 'demo:mapping:mapping'))
    # a third of the programs also take savepoints (rollbacks are C12's):
    # the outcome of a transaction must reach objects whose changes were
    # already moved to the temporary store
    sp = r.random() < 0.35
    ops = CS.gen_program(r, r.randint(4, 30), sp, kind)
    if sp:
        ops = [op for op in ops if op[0] != 'rb' or r.random() < 0.3]
    return {'kind': kind, 'ops': ops, 'savepoints': sp,
            # (small: the clean-up at a savepoint evicts objects -- also
            # new ones it has just saved)
            'cache_size': 400 if r.random() < 0.8 else r.choice((1, 3)),
            'look_after_sp': r.random() < 0.5,
            'bufsize': r.choice((64, 8192)), 'tier': tier}


def result(m, case, prefix):
    stats = {'sim_time_s': m.sim.clock.elapsed(),
             'kind:' + case['kind']: 1, 'objects': len(m.sos),
             'commits': len(m.log.txns)}
    for t in m.trace:
        stats['op:' + t] = stats.get('op:' + t, 0) + 1
    nontrivial = stats.get('op:commit', 0) >= 2 or any(
        t.startswith('fail') or t in ('abort', 'rb') for t in m.trace)
    return {
        'violations': [{'oracle': o, 'detail': x} for o, x in m.viol[:20]],
        'stats': stats,
        'keys': ['%s|%s|%s' % (prefix, case['kind'], ','.join(m.trace))]
        if nontrivial else [],
        'evals': 1,
        'sample': {'kind': case['kind'], 'ops': case['ops'],
                   'trace': m.trace},
        'digest': m.sim.digest(m.trace, m.viol),
    }


def run(case):
    if case.get('arm') == 'multi':
        return run_multi(case)
    m = CS.run_program(case, bool(case.get('savepoints')))
    return result(m, case, 'c11')


LEVEL_TEXT = ('seeded search over programs on real Connection/serialize/'
              'transaction code with injected commit failures at every '
              'phase (second participant, conflict from a second '
              'connection, ENOSPC at a raw write on the simulated disk); a '
              'reference model (plain-Python shadow) predicts object '
              'state, ownership and the stored record set after each step.')
LEVEL_NOTE = ('single thread; the observer connection runs between steps; '
              'programs <= 30 ops; trusted: the shadow model')
TECHNIQUE = ('deterministic simulation: seeded programs with injected '
             'commit failures (participants, conflicts, disk faults), '
             'shadow reference model of objects and stored records')
