"""C16, blob arm -- a DemoStorage over a blob-capable base: blobs of either
layer are read through it, conflict detection for blob stores treats both
layers as one database, new ids do not collide, and the base (data file and
blob directory) stays as it is.  Storage-level client (a ZEO-style server or
copy tool calls exactly these methods)."""

import hashlib
import os
import random
import shutil
import tempfile

from ZODB.Connection import TransactionMetaData
from ZODB.POSException import ConflictError
from ZODB.POSException import POSKeyError
from ZODB.utils import p64
from ZODB.utils import u64
from ZODB.utils import z64

from .. import ctx

_n = [0]
BASE = '/sim/Base.fs'


def gen(seed, tier):
    r = random.Random(seed)
    nb = r.choice((1, 2, 3))
    base_ops = []
    for _ in range(r.randint(1, 6)):
        base_ops.append(['put', r.randrange(nb)])
    ops = []
    for _ in range(r.randint(2, 10)):
        x = r.random()
        if x < 0.30:
            ops.append(['put', r.randrange(nb + 2)])
        elif x < 0.55:
            ops.append(['stale', r.randrange(nb + 2),
                        r.choice(('older', 'zero', 'minus1'))])
        elif x < 0.70:
            ops.append(['abort', r.randrange(nb + 2),
                        r.choice(('store', 'vote'))])
        elif x < 0.80:
            ops.append(['new'])
        elif x < 0.90:
            ops.append(['plain_stale', r.randrange(nb + 2)])
        else:
            ops.append(['read'])
    return {'arm': 'blob', 'base_ops': base_ops, 'ops': ops,
            'changes': r.choice(('default', 'default', 'file')),
            'bufsize': r.choice((64, 8192)), 'tier': tier}


def blob_record():
    """The record of a ZODB.blob.Blob object."""
    from ZODB.blob import Blob
    from ZODB.serialize import ObjectWriter
    return ObjectWriter().serialize(Blob())


def dir_state(d):
    out = {}
    for dp, dn, fn in os.walk(d):
        if os.path.basename(dp) == 'tmp':
            del dn[:]
            continue
        for f in fn:
            path = os.path.join(dp, f)
            with open(path, 'rb') as fh:
                out[path] = hashlib.sha1(fh.read()).hexdigest()
    return out


def run(case):
    from ZODB.DemoStorage import DemoStorage
    from ZODB.FileStorage import FileStorage
    sim = ctx.activate(ctx.Sim(case['seed'], bufsize=case['bufsize']))
    _n[0] += 1
    scratch = '/dev/shm/zsim-%d/d%d' % (os.getpid(), _n[0])
    shutil.rmtree(scratch, ignore_errors=True)
    os.makedirs(scratch + '/systmp')
    old_tempdir = tempfile.tempdir
    tempfile.tempdir = scratch + '/systmp'
    viol = []
    trace = []
    counter = [0]
    rec = blob_record()
    revs = {}           # oid -> [(tid, bytes)]  (both layers, in order)
    oid_of = {}         # k -> oid

    def flag(o, x):
        if len(viol) < 20:
            viol.append((o, x))

    def content():
        counter[0] += 1
        return (b'blob-%d-' % counter[0]) * (1 + counter[0] % 5)

    def tmpfile(data):
        counter[0] += 1
        fn = '%s/systmp/in-%d' % (scratch, counter[0])
        with open(fn, 'wb') as f:
            f.write(data)
        return fn

    def put(st, k, serial=None, end='commit'):
        """storeBlob of blob k; returns 'commit' / 'conflict' / 'abort'."""
        if k not in oid_of:
            oid_of[k] = st.new_oid()
            if oid_of[k] in revs:
                flag('oid-exists', 'new_oid returned %r, which has blob '
                     'revisions' % oid_of[k])
        oid = oid_of[k]
        cur = revs.get(oid, [])
        if serial is None:
            serial = cur[-1][0] if cur else z64
        data = content()
        fn = tmpfile(data)
        t = TransactionMetaData(b'', b'', {})
        st.tpc_begin(t)
        try:
            st.storeBlob(oid, serial, rec, fn, '', t)
            if end == 'store':
                st.tpc_abort(t)
                return 'abort'
            st.tpc_vote(t)
            if end == 'vote':
                st.tpc_abort(t)
                return 'abort'
            tid = st.tpc_finish(t)
        except ConflictError:
            st.tpc_abort(t)
            return 'conflict'
        finally:
            if os.path.exists(fn):
                os.remove(fn)
        revs.setdefault(oid, []).append((tid, data))
        return 'commit'

    def check_reads(st, where):
        for oid, lst in sorted(revs.items()):
            for tid, data in lst:
                for how in ('loadBlob', 'openCommittedBlobFile'):
                    try:
                        if how == 'loadBlob':
                            with open(st.loadBlob(oid, tid), 'rb') as f:
                                got = f.read()
                        else:
                            with st.openCommittedBlobFile(oid, tid) as f:
                                got = f.read()
                    except Exception as e:      # noqa: B902
                        flag('blob-read', '%s: %s(%r, %r) raised %s: %s'
                             % (where, how, oid, tid, type(e).__name__,
                                str(e)[:60]))
                        continue
                    if got != data:
                        flag('blob-read', '%s: %s(%r, %r) returns %r..., '
                             'written was %r...' % (where, how, oid, tid,
                                                    got[:20], data[:20]))
            # the current revision is the last one written
            try:
                cur = st.load(oid)[1]
            except POSKeyError:
                cur = None
            if cur != lst[-1][0]:
                flag('blob-current', '%s: current revision of %r is %r, '
                     'last committed was %r' % (where, oid, cur, lst[-1][0]))

    st = None
    try:
        base = FileStorage(BASE, blob_dir=scratch + '/baseblobs')
        for op in case['base_ops']:
            out = put(base, op[1])
            trace.append('base-' + out)
        base.close()
        nbase = {oid: len(lst) for oid, lst in revs.items()}
        base = FileStorage(BASE, blob_dir=scratch + '/baseblobs',
                           read_only=True)
        base_img = (bytes(sim.fs.read_bytes(BASE)),
                    dir_state(scratch + '/baseblobs'))
        if case['changes'] == 'file':
            changes = FileStorage('/sim/Changes.fs',
                                  blob_dir=scratch + '/changesblobs')
            st = DemoStorage(base=base, changes=changes)
        else:
            st = DemoStorage(base=base)
        check_reads(st, 'after wrapping')
        for op in case['ops']:
            k = op[0]
            if k == 'put':
                out = put(st, op[1])
                if out != 'commit':
                    flag('store-outcome', 'storeBlob with the current '
                         'serial: %s' % out)
                trace.append('put-' + out)
            elif k in ('stale', 'plain_stale'):
                if op[1] not in oid_of:
                    continue
                oid = oid_of[op[1]]
                cur = revs[oid]
                if k == 'plain_stale':
                    serial = p64(u64(cur[-1][0]) - 1)
                elif op[2] == 'older' and len(cur) > 1:
                    serial = cur[-2][0]
                elif op[2] == 'zero':
                    serial = z64
                else:
                    serial = p64(u64(cur[-1][0]) - 1)
                layer = 'base' if len(cur) == nbase.get(oid, 0) else \
                    'changes'
                if k == 'plain_stale':
                    # control: a plain record store from a stale serial
                    t = TransactionMetaData(b'', b'', {})
                    st.tpc_begin(t)
                    try:
                        st.store(oid, serial, rec, '', t)
                        st.tpc_vote(t)
                    except ConflictError:
                        out = 'conflict'
                    else:
                        out = 'accepted'
                    st.tpc_abort(t)
                    what = 'store'
                else:
                    n0 = len(revs[oid])
                    out = put(st, op[1], serial=serial, end='vote')
                    if out == 'abort':
                        out = 'accepted'
                    del revs[oid][n0:]
                    what = 'storeBlob'
                if out != 'conflict':
                    flag('stale-blob-store-accepted/%s/%s' % (what, layer),
                         '%s of %r with serial %r was accepted although '
                         'its current revision %r (in the %s) is another '
                         'one' % (what, oid, serial, cur[-1][0], layer))
                trace.append('%s-%s-%s' % (k, layer, out))
            elif k == 'abort':
                if op[1] in oid_of:
                    n0 = len(revs[oid_of[op[1]]])
                else:
                    n0 = 0
                before = None
                cd = getattr(getattr(st.changes, 'fshelper', None),
                             'base_dir', None)
                if cd:
                    before = dir_state(cd)
                out = put(st, op[1], end=op[2])
                if op[1] in oid_of and oid_of[op[1]] in revs:
                    del revs[oid_of[op[1]]][n0:]
                    if not revs[oid_of[op[1]]]:
                        del revs[oid_of[op[1]]]
                        del oid_of[op[1]]
                elif op[1] in oid_of:
                    del oid_of[op[1]]
                cd2 = getattr(getattr(st.changes, 'fshelper', None),
                              'base_dir', None)
                if cd2 and before is not None and dir_state(cd2) != before:
                    flag('blob-abort-leftover', 'an aborted storeBlob left '
                         'files in the changes blob directory')
                trace.append('abort-' + out)
            elif k == 'new':
                oid = st.new_oid()
                if oid in revs or oid in oid_of.values():
                    flag('oid-exists', 'new_oid returned %r, which is in '
                         'use' % oid)
                trace.append('new')
            elif k == 'read':
                check_reads(st, 'mid')
                trace.append('read')
            now = (bytes(sim.fs.read_bytes(BASE)),
                   dir_state(scratch + '/baseblobs'))
            if now != base_img:
                flag('demo-base-modified', 'after %r the base %s changed'
                     % (op, 'data file' if now[0] != base_img[0]
                        else 'blob directory'))
                break
        check_reads(st, 'end')
    except Exception as e:      # noqa: B902
        import traceback
        flag('program-raises', '%s: %s | %s' % (
            type(e).__name__, str(e)[:80],
            ' / '.join(x.strip()[:70] for x in
                       traceback.format_exc().strip().splitlines()[-5:-1])))
    finally:
        try:
            if st is not None:
                st.close()
        except Exception:       # noqa: B902
            pass
        tempfile.tempdir = old_tempdir
        shutil.rmtree(scratch, ignore_errors=True)
        try:
            os.rmdir(os.path.dirname(scratch))
        except OSError:
            pass
    stats = {'sim_time_s': sim.clock.elapsed(), 'arm:blob': 1,
             'blob_changes:' + case['changes']: 1}
    for t in trace:
        stats['blobop:' + t] = stats.get('blobop:' + t, 0) + 1
    nput = sum(1 for t in trace if t.startswith(('put-commit', 'stale')))
    return {
        'violations': [{'oracle': o, 'detail': x} for o, x in viol[:20]],
        'stats': stats,
        'keys': ['blob|%s|%s' % (case['changes'], ','.join(trace))]
        if nput >= 1 and any(t == 'base-commit' for t in trace) else [],
        'evals': 1,
        'sample': {'arm': 'blob', 'changes': case['changes'],
                   'base_ops': case['base_ops'], 'ops': case['ops'],
                   'trace': trace},
        'digest': sim.digest(trace, viol),
    }
