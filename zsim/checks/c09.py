"""C09 -- index and side files are only caches; a read-only open changes
nothing (DESIGN §6 C09).  History sampled by seed; index variants, crash
images and read-only opens enumerated per history."""

import random

from ZODB.Connection import TransactionMetaData
from ZODB.POSException import ReadOnlyError
from ZODB.utils import p64
from ZODB.utils import z64

from .. import ctx
from .. import fsparse
from .. import gen as G
from .. import simfs
from ..hist import Driver
from ..hist import Violation
from ..hist import oid_of
from ..model import Log
from ..model import undo_id
from ..sweep import sweep

ID = 'C09'
LEVEL = 'fault_enumeration'
RULE = ('one run = one seeded FileStorage history with packs and reopens; '
        'every version of Data.fs.index the history produced is kept; at '
        'the final state and at seeded crash images of the history the '
        'storage is opened with: no index, every earlier index version '
        '(also pre-pack ones on the packed file), byte prefixes of the '
        'newest index (quick: 24 seeded + the ends; thorough: all), and '
        'planted junk .tmp/.lock/.pack/.old/.index_tmp files; plus '
        'read-only opens of the clean file, of crash images and beside a '
        'writer parked after begin/stores/vote; one evaluation = one open; '
        'non-trivial = the index variant differs from the newest index or '
        'the image has an unfinished tail; distinct = hash of (data file, '
        'index bytes, mode)')
RULE += ('  '
         'Later additions: read-only opens where there is no data file '
         "(incl. the window between a pack's two renames) create and "
         'change nothing; time-travel opens (stop=) with and without '
         'the newest saved index give the same state; read-only opens '
         'of files with a zero tail. ')
BUDGET = {'quick': {'runs': 1600, 'wall': 300, 'chunk': 10},
          'thorough': {'runs': 100000, 'wall': 1800, 'chunk': 20}}
ASSUMPTIONS = [
    'bit damage inside an index file is outside the property (the format '
    'carries no checksum); only truncation and staleness are injected',
    'a read-write open may legitimately rewrite .index, create .tmp/.lock '
    'and truncate a torn tail into .trN',
]
SHRINK = ['ops']
PATH = '/sim/Data.fs'
IDX = PATH + '.index'


def uniform_history(r):
    """Transactions of identical size, a pack that removes k of them and
    k more commits afterwards: a pre-pack index then describes a file of
    the same length with the same transaction boundaries, and only the
    comparison of record positions can tell that it is stale."""
    size = r.choice((0, 10, 100))
    noids = r.choice((2, 2, 3))
    a = r.randint(3, 8)

    def txn(o):
        return {'op': 'txn', 'recs': [{'o': 1 + o, 'size': size}]}
    seq = [r.randrange(noids) for _ in range(a)]
    ops = [txn(o) for o in seq]
    ops.append({'op': 'reopen'})
    ops.append({'op': 'pack', 'where': 'after_all'})
    # the pack drops the superseded revisions: as many commits again bring
    # the file back to its old length; the last one writes the object the
    # old last transaction wrote (the only records the sanity check of a
    # saved index looks at)
    k = a - len(set(seq))
    if r.random() < 0.2:
        k += r.choice((-1, 1))
    post = [r.randrange(noids) for _ in range(max(0, k - 1))]
    if k >= 1:
        post.append(seq[-1])
    ops += [txn(o) for o in post]
    if r.random() < 0.5:
        ops.append({'op': 'reopen'})
    return ops


def gen(seed, tier):
    r = random.Random(seed)
    if r.random() < 0.15:
        return {'ops': uniform_history(r), 'bufsize': 8192, 'tick': 0.37,
                'tier': tier, 'ncrash': 2}
    ops = G.gen_history(
        ctx.subseed(seed, 'hist'), 'file', n=r.randint(2, 10),
        weights={'new_oid': 0, 'wrong': 0, 'clock': 1, 'reopen': 14,
                 'txn': 55, 'undo': 10, 'rtxn': 5, 'delete': 3, 'pack': 8})
    for op in ops:
        for rec in op.get('recs', ()):
            if rec.get('size', 0) > 3000:
                rec['size'] = 3000
    return {'ops': ops, 'bufsize': r.choice((64, 512, 8192, 65536)),
            'tick': r.choice((0.37, 45.0)), 'tier': tier,
            'ncrash': 3 if tier == 'quick' else 8}


class Opener:

    def __init__(self, case, clock_now):
        self.case = case
        self.viol = []
        self.evals = 0
        self.keys = set()
        self.stats = {}
        self.rsim = ctx.Sim(ctx.subseed(case['seed'], 'open'),
                            bufsize=case['bufsize'])
        self.rsim.clock.set(clock_now + 1000)

    def flag(self, oracle, detail):
        if len(self.viol) < 20:
            self.viol.append((getattr(self, 'fam', '') + oracle, detail))

    def passes_documented_sanity(self, fs):
        """True if the index file beside the data file is one that
        FileStorage's sanity check of a saved index accepts *by design*:
        its position is a transaction boundary of this file and the first
        five records of the last non-empty transaction before it lie where
        the index says.  (Decided with the independent parser.)"""
        try:
            from ZODB.fsIndex import fsIndex
            info = fsIndex.load(IDX)
            pos, index = info['pos'], info['index']
            txns, end, problems, recs_at = fsparse.parse(fs.read_bytes(PATH))
        except Exception:       # noqa: B902
            return False
        if pos < 100:
            return False
        before = [t for t in txns if t.end <= pos]
        if not before or before[-1].end != pos:
            return False
        for t in reversed(before):
            if t.recs:
                return all(index.get(x.oid) == x.pos for x in t.recs[:5])
        return False

    def bump(self, k):
        self.stats[k] = self.stats.get(k, 0) + 1

    def fs_from(self, snap):
        fs = simfs.SimFS.from_snapshot(snap, self.rsim, self.case['bufsize'])
        self.rsim.fs = fs
        ctx.activate(self.rsim)
        return fs

    def observe(self, st):
        """What the property says must not depend on side files."""
        out = {'pos': st._pos, 'ltid': st.lastTransaction(),
               'len': len(st)}
        try:
            out['next_oid'] = st.new_oid()
        except ReadOnlyError:
            out['next_oid'] = None
        out['cur'] = sorted((oid, st._index[oid]) for oid in st._index)
        return out

    def open_variant(self, snap, label, model, ref=None, deep=False,
                     nontrivial=True):
        """Open read-write on a copy of `snap`; compare with `model` and
        with the reference observation `ref` (the no-index open)."""
        from ZODB.FileStorage import FileStorage
        fs = self.fs_from(snap)
        self.evals += 1
        self.bump('open:' + label.split(' ')[0])
        if nontrivial:
            import zlib
            self.keys.add('%x|%x|%s' % (
                zlib.crc32(fs.read_bytes(PATH)),
                zlib.crc32(fs.read_bytes(IDX)) if IDX in fs.names else 0,
                label.split(' ')[0]))
        self.fam = ''
        if 'stale' in label.split(' ')[0] and \
                self.passes_documented_sanity(fs):
            # known finding: only the last transaction is compared
            self.fam = 'stale-index-passes-sanity/'
            self.bump('stale_index_passing_sanity')
        try:
            return self._open_variant(fs, label, model, ref, deep)
        finally:
            self.fam = ''

    def _open_variant(self, fs, label, model, ref, deep):
        from ZODB.FileStorage import FileStorage
        try:
            st = FileStorage(PATH)
        except Exception as e:      # noqa: B902
            self.flag('open-raises', '%s: FileStorage(path) raised %s: %s'
                      % (label, type(e).__name__, str(e)[:80]))
            return None
        try:
            used = getattr(st, '_used_index', None)
            self.bump('index_used' if used else 'index_ignored')
            obs = self.observe(st)
            if ref is not None and obs != ref:
                diff = [k for k in obs if obs[k] != ref[k]]
                self.flag('index-changes-state', '%s: %s differ from the '
                          'open without an index (%r vs %r)'
                          % (label, diff, _b(obs[diff[0]]),
                             _b(ref[diff[0]])))
            if model is not None:
                bad = sweep(st, model, {'undo': True,
                                        'record_iternext': True,
                                        'last_inv': True},
                            tag=label + ': ', full=deep)
                for name, msg in bad[:2]:
                    self.flag('index-query:' + name, msg)
            return obs
        finally:
            try:
                st.close()
            except Exception:       # noqa: B902
                pass

    def read_only(self, snap, label, model, writer=None):
        from ZODB.FileStorage import FileStorage
        fs = self.rsim.fs if writer is not None else self.fs_from(snap)
        self.evals += 1
        self.bump('ro-open')
        before = fs.image()
        self.fam = ''
        if 'stale' in label and self.passes_documented_sanity(fs):
            self.fam = 'stale-index-passes-sanity/'
        try:
            return self._read_only(fs, before, label, model, writer)
        finally:
            self.fam = ''

    def time_travel(self, with_idx, without_idx, stop, label):
        """FileStorage(path, read_only=True, stop=tid): "data will be
        read up to the given transaction id" -- with a saved index beside
        the file exactly as without one."""
        from ZODB.FileStorage import FileStorage
        obs = []
        for snap in (without_idx, with_idx):
            fs = self.fs_from(snap)
            self.evals += 1
            self.bump('time-travel-open')
            before = fs.image()
            try:
                ro = FileStorage(PATH, read_only=True, stop=stop)
            except Exception as e:      # noqa: B902
                self.flag('time-travel-open-raises', '%s: raised %s: %s'
                          % (label, type(e).__name__, str(e)[:80]))
                return
            try:
                o = self.observe(ro)
                o['loads'] = []
                for oid, _ in o['cur']:
                    try:
                        o['loads'].append((oid,) + tuple(ro.load(oid)))
                    except Exception as e:      # noqa: B902
                        o['loads'].append((oid, type(e).__name__))
                obs.append(o)
            finally:
                ro.close()
            if fs.image() != before:
                self.flag('ro-modified', '%s: a time-travel open changed '
                          'files' % label)
        if obs[0] != obs[1]:
            diff = [k for k in obs[0] if obs[0][k] != obs[1][k]]
            self.flag('index-changes-state', '%s: with a saved index '
                      'beside the file %s differ from the open without '
                      'one (%r vs %r)' % (label, diff, _b(obs[1][diff[0]]),
                                          _b(obs[0][diff[0]])))

    def read_only_absent(self, snap, label):
        """A read-only open where there is no data file (an empty place,
        or the window between the two renames of a pack) may only refuse:
        it creates and changes nothing."""
        from ZODB.FileStorage import FileStorage
        fs = self.fs_from(snap)
        self.evals += 1
        self.bump('ro-open-absent')
        before = fs.image()
        try:
            ro = FileStorage(PATH, read_only=True)
        except Exception:           # noqa: B902 -- any refusal will do
            pass
        else:
            try:
                n = len(list(ro.iterator()))
            except Exception:       # noqa: B902
                n = -1
            self.flag('ro-open-of-absent-file', '%s: a read-only open '
                      'without a data file was accepted (and shows %d '
                      'transactions)' % (label, n))
            try:
                ro.close()
            except Exception:       # noqa: B902
                pass
        after = fs.image()
        if after != before:
            changed = sorted(set(k for k in set(before) | set(after)
                                 if before.get(k) != after.get(k)))
            self.flag('ro-modified', '%s: read-only open without a data '
                      'file changed %s' % (label, changed))

    def _read_only(self, fs, before, label, model, writer):
        from ZODB.FileStorage import FileStorage
        try:
            ro = FileStorage(PATH, read_only=True)
        except Exception as e:      # noqa: B902
            self.flag('ro-open-raises', '%s: read-only open raised %s: %s'
                      % (label, type(e).__name__, str(e)[:80]))
            return
        try:
            bad = sweep(ro, model, {'undo': True, 'record_iternext': True},
                        tag=label + ' ro: ', full=True)
            for name, msg in bad[:2]:
                self.flag('ro-query:' + name, msg)
            foreign = TransactionMetaData(b'', b'', {})
            from ZODB.serialize import referencesf
            calls = [
                ('tpc_begin', lambda: ro.tpc_begin(foreign)),
                ('store', lambda: ro.store(z64, z64, b'x', '', foreign)),
                ('deleteObject', lambda: ro.deleteObject(z64, z64, foreign)),
                ('restore', lambda: ro.restore(z64, p64(9), b'x', '', None,
                                               foreign)),
                ('undo', lambda: ro.undo(undo_id(p64(9)), foreign)),
                ('new_oid', lambda: ro.new_oid()),
                ('pack', lambda: ro.pack(self.rsim.clock.now, referencesf)),
            ]
            for name, fn in calls:
                try:
                    fn()
                except ReadOnlyError:
                    pass
                except Exception as e:      # noqa: B902
                    self.flag('ro-write-not-refused', '%s: %s raised %s '
                              'instead of ReadOnlyError'
                              % (label, name, type(e).__name__))
                else:
                    self.flag('ro-write-not-refused', '%s: %s was accepted '
                              'by a read-only storage' % (label, name))
        finally:
            try:
                ro.close()
            except Exception as e:          # noqa: B902
                self.flag('ro-open-raises', '%s: close raised %s'
                          % (label, type(e).__name__))
        after = fs.image()
        if after != before:
            changed = sorted(set(k for k in set(before) | set(after)
                                 if before.get(k) != after.get(k)))
            self.flag('ro-modified', '%s: read-only use changed %s'
                      % (label, changed))


def _b(x):
    s = repr(x)
    return s if len(s) < 80 else s[:77] + '...'


def index_variants(versions, r, tier):
    """[(label, bytes|None)]"""
    out = [('noindex', None)]
    newest = versions[-1] if versions else None
    for i, v in enumerate(versions[:-1]):
        out.append(('stale v%d/%d' % (i, len(versions)), v))
    if newest:
        n = len(newest)
        if tier == 'thorough' or n <= 48:
            pts = range(0, n)
        else:
            pts = sorted({0, 1, 2, n - 1, n - 2, n - 8}
                         | {r.randrange(n) for _ in range(24)})
        for j in pts:
            if 0 <= j < n:
                out.append(('cut %d/%d' % (j, n), newest[:j]))
    return out


def run(case):
    tier = case.get('tier', 'quick')
    sim = ctx.activate(ctx.Sim(case['seed'], bufsize=case['bufsize'],
                               clock={'tick': case['tick']}))
    d = Driver(sim, 'file', path=PATH, opts={'pack_gc': False})
    snap0 = sim.fs.snapshot()
    del sim.fs.log[:]
    versions = []
    saved_by = []           # length of the op log when version i was seen
    marks_model = []        # (log index, number of committed txns, model)

    def note_index():
        if IDX in sim.fs.names:
            b = sim.fs.read_bytes(IDX)
            if not versions or versions[-1] != b:
                versions.append(b)
                saved_by.append(len(sim.fs.log))

    note_index()
    viol = []
    packed_at = []
    try:
        for op in case['ops']:
            out = d.execute(op)
            note_index()
            if out == 'pack':
                packed_at.append(len(sim.fs.log))
        d.close()
        note_index()
    except Violation:
        pass
    except Exception as e:      # noqa: B902
        viol.append(('history-raises', '%s: %s' % (type(e).__name__,
                                                   str(e)[:80])))
    viol.extend(d.viol)
    log = list(sim.fs.log)
    model = d.model
    final = sim.fs.snapshot()
    op_ = Opener(case, sim.clock.now)
    op_.viol = viol
    r = random.Random(ctx.subseed(case['seed'], 'variants'))

    def with_index(snap, b, junk=False):
        s = {'files': dict(snap['files']), 'inodes': dict(snap['inodes']),
             'dirs': set(snap['dirs']), 'next_ino': snap['next_ino'] + 50}
        nxt = snap['next_ino'] + 1

        def put(path, data):
            nonlocal nxt
            s['files'][path] = nxt
            s['inodes'][nxt] = data
            nxt += 1
        if b is None:
            s['files'].pop(IDX, None)
        else:
            put(IDX, b)
        if junk:
            for suf in ('.tmp', '.lock', '.pack', '.old', '.index.index_tmp',
                        '.index_tmp'):
                put(PATH + suf, b'junk' * r.randint(1, 40))
        return s

    if not viol:
        # -- final state: every index variant ---------------------------
        ref = op_.open_variant(with_index(final, None), 'noindex final',
                               model, deep=True)
        if ref is not None:
            for label, b in index_variants(versions, r, tier)[1:]:
                op_.open_variant(with_index(final, b), label + ' final',
                                 model, ref, deep=label.startswith('stale'))
            for label, b in [('junk+newest', versions[-1] if versions
                              else None),
                             ('junk+noindex', None)] + \
                    [('junk+stale', v) for v in versions[:-1][-2:]]:
                op_.open_variant(with_index(final, b, junk=True),
                                 label + ' final', model, ref)
        # -- read-only on the clean file -------------------------------
        op_.read_only(final, 'clean final', model)
        # time travel: the state as of a transaction id, with and without
        # the newest index
        tt = [t.tid for t in model.txns]
        if versions and tt:
            for tid in r.sample(tt, min(2, len(tt))):
                op_.time_travel(with_index(final, versions[-1]),
                                with_index(final, None), tid,
                                'time travel to %r' % tid)
        # what a crash of the machine (not of a commit) can leave behind
        # the last transaction: zeros (the file length on disk before the
        # data); a read-only open shows the complete transactions and
        # changes nothing.  (Random rubbish is no crash artefact of the
        # crash model: a non-ASCII status byte makes read_index raise
        # UnicodeDecodeError -- noted, outside the properties.)
        for tl_, tail in (('zero tail', b'\0' * r.choice((23, 64, 600))),):
            for vl, vb in (('noindex', None),
                           ('newest', versions[-1] if versions else None)):
                sn = with_index(final, vb)
                ino = sn['files'][PATH]
                sn['inodes'][ino] = bytes(sn['inodes'][ino]) + tail
                op_.read_only(sn, '%s %s' % (tl_, vl), model)
        gone = with_index(final, None)
        gone['files'].pop(PATH, None)
        op_.read_only_absent(gone, 'no data file')
        gone = with_index(final, versions[-1] if versions else None)
        gone['files'].pop(PATH, None)
        op_.read_only_absent(gone, 'no data file, index left')
        op_.read_only(with_index(final, None), 'clean final noindex', model)
        # ... and with unreadable / stale indexes: still nothing modified
        ivs = index_variants(versions, r, 'quick')[1:]
        for label, b in (r.sample(ivs, min(5, len(ivs))) if ivs else ()):
            op_.read_only(with_index(final, b), 'final ' + label, model)
        # -- crash images ------------------------------------------------
        if log:
            rep = simfs.Replayer(snap0, log)
            data_ino = snap0['files'][PATH]
            cand = [k for k in range(1, len(log) + 1)
                    if log[k - 1][0] in ('write', 'truncate', 'rename')
                    and (log[k - 1][0] == 'rename'
                         or log[k - 1][1] == data_ino)]
            ks = set(r.sample(cand, min(case.get('ncrash', 3), len(cand))))
            # always: right after the pack's swap, before it saved the new
            # index -- the pre-pack index then lies beside the packed file
            ks.update(k for k in cand if log[k - 1][0] == 'rename'
                      and log[k - 1][2] == PATH)
            ks = sorted(ks)
            for k in ks:
                rep.advance(k)
                torn = None
                if k < len(log) and log[k][0] == 'write' \
                        and log[k][1] == data_ino and len(log[k][3]) > 1 \
                        and r.random() < 0.6:
                    torn = r.randrange(1, len(log[k][3]))
                img = rep.image(torn=torn, bufsize=case['bufsize'])
                if PATH not in img.names:
                    # C08's window, not an index question -- but a
                    # read-only client may come by
                    op_.read_only_absent(img.snapshot(), 'crash@%d' % k)
                    continue
                snap = img.snapshot()
                label = 'crash@%d%s' % (k, '' if torn is None
                                        else '+%d' % torn)
                # the reference for a crash image is its own no-index open;
                # which model prefix it shows is C01's business -- here we
                # find it from the independent parser
                try:
                    hist, end, problems = fsparse.to_history(
                        img.read_bytes(PATH))
                except fsparse.Bad:
                    continue
                pm = None
                want = [(t.tid, t.status, t.user, t.desc, t.ext,
                         [(x.oid, x.data) for x in t.recs])
                        for t in model.txns]
                if hist == want[:len(hist)] and not packed_at:
                    pm = Log(model.txns[:len(hist)])
                # read-only first (must not modify the torn tail)
                if pm is not None:
                    op_.read_only(snap, label, pm)
                ref = op_.open_variant(with_index(snap, None),
                                       'noindex ' + label, pm)
                if ref is None:
                    continue
                # only index versions saved at an *earlier* moment than
                # the crash (an index newer than the data file cannot
                # exist: it is written after the data it describes)
                earlier = [v for v, at in zip(versions, saved_by) if at <= k]
                for vl, b in index_variants(earlier, r, 'quick')[1:]:
                    if vl.startswith('cut') and r.random() < 0.7:
                        continue
                    op_.open_variant(with_index(snap, b),
                                     vl + ' ' + label, pm, ref)
        # -- read-only beside a parked writer ---------------------------
        for phase in ('begin', 'stores', 'vote'):
            fs = op_.fs_from(final)
            from ZODB.FileStorage import FileStorage
            try:
                w = FileStorage(PATH)
            except Exception as e:      # noqa: B902
                op_.flag('open-raises', 'writer open raised %s'
                         % type(e).__name__)
                break
            t = TransactionMetaData(b'w', b'parked', {})
            w.tpc_begin(t)
            if phase != 'begin':
                w.store(oid_of(1), (model.current(oid_of(1)) or (z64,))[0],
                        b'parked-data-' * 20, '', t)
                w.store(p64(0x5151), z64, b'parked-new', '', t)
            if phase == 'vote':
                w.tpc_vote(t)
            op_.read_only(None, 'writer parked after ' + phase, model,
                          writer=w)
            w.tpc_abort(t)
            w.close()
    ctx.activate(sim)
    stats = {'sim_time_s': sim.clock.elapsed(), 'commits': len(model.txns),
             'index_versions': len(versions), 'packs': len(packed_at)}
    stats.update(op_.stats)
    for o in d.outcomes:
        k = 'outcome:' + o.split(':')[0]
        stats[k] = stats.get(k, 0) + 1
    return {
        'violations': [{'oracle': o, 'detail': x} for o, x in op_.viol[:20]],
        'stats': stats,
        'keys': sorted(op_.keys),
        'evals': max(op_.evals, 1),
        'sample': {'ops': case['ops'], 'outcomes': d.outcomes,
                   'index_versions': [len(v) for v in versions],
                   'opens': op_.evals},
        'digest': sim.digest(d.outcomes, op_.viol, op_.evals,
                             sorted(op_.keys)),
    }


LEVEL_TEXT = ('per sampled history the side-file states the property names '
              'are enumerated: every earlier index version, byte prefixes '
              'of the newest index, planted junk files, each also on seeded '
              'crash images of the same history; every open is compared '
              'with the open without an index and with the reference model; '
              'read-only opens (clean, crashed, beside a parked writer) '
              'must leave the complete directory image identical and refuse '
              'every write.')
LEVEL_NOTE = ('index damage other than truncation/staleness is out of the '
              'property; crash images are sampled (3 per history in quick, '
              '8 in thorough), index prefixes sampled in quick; trusted: '
              'simfs images, reference model, fsparse')
TECHNIQUE = ('deterministic simulation: recorded op log and saved index '
             'versions, enumerated stale/cut index and crash-image opens, '
             'directory-image comparison for read-only use')
