"""C20 -- object ids are never issued twice or for an object that already
exists (DESIGN §6 C20)."""

import io
import random

from ZODB.Connection import TransactionMetaData
from ZODB.POSException import ConflictError
from ZODB.utils import p64
from ZODB.utils import u64
from ZODB.utils import z64

from .. import ctx
from .. import dbh
from .. import objs
from .. import sched as S
from .. import seams

ID = 'C20'
LEVEL = 'exploration'
RULE = ('one run = one seeded allocation history on one storage kind '
        '(FileStorage on the simulated disk, MappingStorage, DemoStorage '
        'over mapping/file layers with an adversarial id source that '
        'proposes ids adjacent to existing and issued ones, Connection '
        'savepoints, export/import): new_oid, store of issued ids, stores '
        'and restores of arbitrary high/sparse ids, aborts, ids allocated '
        'inside two-phase commits that commit / abort / abort after the '
        'vote, pack, '
        'close/reopen; or 2-4 allocator tasks calling new_oid/store '
        'concurrently under the seeded scheduler (lock/file-I/O and '
        'line-level pre-emption); oracle: every id returned differs from '
        'every id returned earlier in the session and from every oid that '
        'has a record in any layer at that moment; non-trivial = >= 3 '
        'allocations after >= 1 store; distinct = (kind, outcome trace)')
BUDGET = {'quick': {'runs': 20000, 'wall': 300, 'chunk': 25},
          'thorough': {'runs': 2500000, 'wall': 1200, 'chunk': 500}}
ASSUMPTIONS = [
    'ids issued in an earlier session (before close/reopen) and never '
    'stored may be issued again: the property speaks of one open session',
]
SHRINK = ['ops', 'scripts']

SPARSE = [1, 2, 3, 7, 255, 256, 257, 65535, 65536, 0x10001, 0xffffff,
          0x1000000, 0x7fffffff, 1 << 40]
KINDS = ['file', 'file', 'mapping', 'mapping', 'demo:mapping:mapping',
         'demo:file:mapping', 'demo:mapping:file', 'demo:file:file']


def gen(seed, tier):
    r = random.Random(seed)
    x = r.random()
    if x < 0.2:
        kind = r.choice(('file', 'mapping', 'demo:mapping:mapping'))
        fine = None
        if r.random() < 0.5:
            fine = {'p': r.choice((0.05, 0.3)),
                    'prefix': seams.repo_src() + '/ZODB'}
        scripts = [[r.choice(('oid', 'oid', 'oid', 'store'))
                    for _ in range(r.randint(2, 8))]
                   for _ in range(r.choice((2, 3, 4)))]
        return {'arm': 'sched', 'kind': kind, 'scripts': scripts,
                'sched': {'strategy': r.choice(('random', 'sticky')),
                          'p_stay': 0.7, 'fine': fine},
                'bufsize': 8192, 'tier': tier}
    if x < 0.3:
        return {'arm': 'conn', 'kind': r.choice(('file', 'mapping',
                                                 'demo:mapping:mapping')),
                'n': r.randint(2, 8), 'bufsize': 8192, 'tier': tier,
                'prestore': [r.choice(SPARSE) for _ in range(r.randint(0,
                                                                       3))]}
    kind = r.choice(KINDS)
    ops = []
    for _ in range(r.randint(4, 24)):
        y = r.random()
        if y < 0.35:
            ops.append(['oid'])
        elif y < 0.55:
            ops.append(['store_new', r.random() < 0.2])
        elif y < 0.75:
            ops.append(['store_at', r.choice(SPARSE) + r.choice((0, 0, 1)),
                        r.random() < 0.15, r.random() < 0.4])
        elif y < 0.80:
            ops.append(['near'])        # store right above the last issued
        elif y < 0.88:
            # ids allocated *inside* a two-phase commit (as a connection
            # does for new objects), which then commits or aborts
            if r.random() < 0.4:
                # records stored under caller-chosen ids above the counter
                # (a copy in progress) while ids are allocated: between
                # the stores and the finish
                ops.append(['txn_foreign',
                            [r.choice((1, 2, 3, 5, 8)) for _ in
                             range(r.randint(1, 3))], r.randint(1, 5),
                            r.choice(('commit', 'commit', 'abortV'))])
            else:
                ops.append(['txn_oids', r.randint(1, 3), r.randint(0, 3),
                            r.choice(('commit', 'abort', 'abort',
                                      'abortV'))])
        elif y < 0.92:
            ops.append(['reopen'])
        elif y < 0.94:
            # the process dies (no close: the index on disk is the one of
            # the last clean close) and the storage is opened again
            ops.append(['crash'])
        else:
            ops.append(['pack'])
    return {'arm': 'hist', 'kind': kind, 'ops': ops,
            'base': [r.choice(SPARSE) for _ in range(r.randint(0, 4))],
            'adversarial': r.random() < 0.7,
            'bufsize': r.choice((64, 8192)), 'tier': tier}


class Tracker:

    def __init__(self):
        self.issued = []
        self.issued_set = set()
        self.present = set()
        self.viol = []
        self.trace = []

    def flag(self, o, x):
        if len(self.viol) < 20:
            self.viol.append((o, x))

    def got(self, oid, where=''):
        if oid in self.issued_set:
            self.flag('oid-reissued', '%snew_oid returned %r a second time '
                      'in one session' % (where, oid))
        if oid in self.present:
            self.flag('oid-exists', '%snew_oid returned %r, which already '
                      'has a record in the storage' % (where, oid))
        self.issued.append(oid)
        self.issued_set.add(oid)


def commit(st, recs, abort=False, restore=False):
    t = TransactionMetaData(b'', b'', {})
    tid = None
    if restore:
        last = st.lastTransaction()
        tid = p64(u64(last) + 1000)
        st.tpc_begin(t, tid, ' ')
    else:
        st.tpc_begin(t)
    try:
        for oid, serial, data in recs:
            if restore:
                st.restore(oid, tid, data, '', None, t)
            else:
                st.store(oid, serial, data, '', t)
        if abort:
            st.tpc_abort(t)
            return False
        st.tpc_vote(t)
        st.tpc_finish(t)
        return True
    except ConflictError:
        st.tpc_abort(t)
        return False


def rec(n):
    return objs.make_record('Cell', {'token': n, 'refs': [], 'n': 0,
                                     'log': [], 'pad': ''})


def cur_serial(st, oid):
    try:
        return st.getTid(oid) if hasattr(st, 'getTid') else \
            st.load(oid)[1]
    except KeyError:
        return z64


def run_hist(case):
    sim = ctx.activate(ctx.Sim(case['seed'], bufsize=case['bufsize']))
    kind = case['kind']
    tr = Tracker()
    n = [0]

    def nxt():
        n[0] += 1
        return n[0]
    if kind.startswith('demo'):
        # populate the base before layering
        from ZODB.DemoStorage import DemoStorage
        from ZODB.FileStorage import FileStorage
        from ZODB.MappingStorage import MappingStorage
        _, bk, ck = kind.split(':')
        base = FileStorage('/sim/Base.fs') if bk == 'file' \
            else MappingStorage('base')
        if case['base']:
            commit(base, [(p64(i), z64, rec(nxt()))
                          for i in sorted(set(case['base']))])
            tr.present.update(p64(i) for i in case['base'])
        changes = FileStorage('/sim/Changes.fs') if ck == 'file' \
            else MappingStorage('changes')
        if case.get('adversarial'):
            r = random.Random(ctx.subseed(case['seed'], 'adv'))
            calls = [0]

            def adv(a, b):
                calls[0] += 1
                pool = sorted(u64(o) for o in tr.present) + \
                    [u64(o) for o in tr.issued]
                if pool and calls[0] < 200 and r.random() < 0.85:
                    return max(1, r.choice(pool) + r.choice((-1, 0, 0, 1)))
                return r.randint(a, b)
            sim.demo_randint = adv
        st = DemoStorage(base=base, changes=changes)
    else:
        st = dbh.make_storage(sim, kind, {'pack_gc': False}
                              if kind == 'file' else None)
    can_restore = kind == 'file'
    try:
        for op in case['ops']:
            k = op[0]
            if k == 'oid':
                tr.got(st.new_oid())
                tr.trace.append('oid')
            elif k == 'store_new':
                oid = st.new_oid()
                tr.got(oid)
                ok = commit(st, [(oid, z64, rec(nxt()))], abort=op[1])
                if ok:
                    tr.present.add(oid)
                tr.trace.append('store_new' if ok else 'store_new-aborted')
            elif k in ('store_at', 'near'):
                if k == 'near':
                    if not tr.issued:
                        continue
                    oid = p64(u64(tr.issued[-1]) + 1)
                    abort, restore = False, False
                else:
                    oid = p64(op[1])
                    abort, restore = op[2], op[3] and can_restore
                if oid in tr.issued_set and oid not in tr.present and \
                        kind.startswith('demo') and False:
                    continue
                ok = commit(st, [(oid, cur_serial(st, oid), rec(nxt()))],
                            abort=abort, restore=restore)
                if ok:
                    tr.present.add(oid)
                tr.trace.append(k + ('' if ok else '-aborted'))
            elif k == 'txn_oids':
                t = TransactionMetaData(b'', b'', {})
                st.tpc_begin(t)
                mine = []
                for _ in range(op[1]):
                    oid = st.new_oid()
                    tr.got(oid)
                    mine.append(oid)
                for oid in mine[:op[2]]:
                    st.store(oid, z64, rec(nxt()), '', t)
                if op[3] == 'abort':
                    st.tpc_abort(t)
                else:
                    st.tpc_vote(t)
                    if op[3] == 'abortV':
                        st.tpc_abort(t)
                    else:
                        st.tpc_finish(t)
                        tr.present.update(mine[:op[2]])
                tr.trace.append('txn_oids-' + op[3])
            elif k == 'txn_foreign':
                # ids just above everything issued / present so far
                top = max([u64(o) for o in tr.issued_set | tr.present]
                          or [0])
                want = []
                for d_ in op[1]:
                    top += d_
                    want.append(p64(top))
                t = TransactionMetaData(b'', b'', {})
                st.tpc_begin(t)
                try:
                    for oid in want:
                        st.store(oid, z64, rec(nxt()), '', t)
                except ConflictError:
                    st.tpc_abort(t)
                    tr.trace.append('txn_foreign-conflict')
                    continue
                window = []
                for _ in range(op[2]):
                    oid = st.new_oid()
                    tr.got(oid)
                    window.append(oid)
                if op[3] == 'commit':
                    st.tpc_vote(t)
                    st.tpc_finish(t)
                    tr.present.update(want)
                    clash = sorted(set(window) & set(want))
                    if clash:
                        tr.flag('oid-exists', 'new_oid returned %r while a '
                                'record under that id was being committed '
                                '(stored, not yet finished): it now '
                                'identifies that object' % clash[0])
                else:
                    st.tpc_vote(t)
                    st.tpc_abort(t)
                tr.trace.append('txn_foreign-' + op[3])
            elif k == 'reopen':
                if kind == 'file':
                    st.close()
                    st = dbh.make_storage(sim, kind, {'pack_gc': False})
                    tr.issued = []
                    tr.issued_set = set()
                    tr.trace.append('reopen')
            elif k == 'crash':
                if kind == 'file':
                    from .. import simfs
                    snap = sim.fs.snapshot()
                    sim.fs = simfs.SimFS.from_snapshot(snap, sim,
                                                       case['bufsize'])
                    st = dbh.make_storage(sim, kind, {'pack_gc': False})
                    tr.issued = []
                    tr.issued_set = set()
                    tr.trace.append('crash')
            elif k == 'pack':
                from ZODB.serialize import referencesf
                try:
                    if kind == 'file':
                        st.pack(sim.clock.now + 100, referencesf)
                    tr.trace.append('pack')
                except Exception:       # noqa: B902
                    tr.trace.append('pack-raises')
        # a final burst of allocations
        for _ in range(4):
            tr.got(st.new_oid())
    except Exception as e:      # noqa: B902
        import traceback
        tr.flag('history-raises', '%s: %s | %s' % (
            type(e).__name__, str(e)[:80],
            ' / '.join(x.strip()[:70] for x in
                       traceback.format_exc().strip().splitlines()[-4:-1])))
    finally:
        try:
            st.close()
        except Exception:       # noqa: B902
            pass
    return sim, tr


def run_sched(case):
    sim = ctx.activate(ctx.Sim(case['seed'], bufsize=case['bufsize']))
    st = dbh.make_storage(sim, case['kind'])
    tr = Tracker()
    n = [0]

    def client(idx, script):
        def run():
            for step in script:
                oid = st.new_oid()
                tr.got(oid, 'task %d: ' % idx)
                if step == 'store':
                    n[0] += 1
                    if commit(st, [(oid, z64, rec(n[0]))]):
                        tr.present.add(oid)
        return run
    sc = case['sched']
    s = S.Sched(sim, strategy=sc['strategy'], p_stay=sc['p_stay'],
                schedule=case.get('schedule'), fine=sc.get('fine'))
    for i, script in enumerate(case['scripts']):
        s.spawn('alloc%d' % i, client(i, script))
    s.run()
    if s.deadlock:
        tr.flag('deadlock', repr(s.deadlock))
    for t in s.tasks:
        if t.exc is not None:
            tr.flag('task-exception', '%s raised %s: %s'
                    % (t.name, type(t.exc).__name__, str(t.exc)[:80]))
    tr.trace = ['sched:%d:%d' % (s.steps, s.switches)] + s.trace[:50]
    tr.schedule = list(s.trace)
    try:
        st.close()
    except Exception:       # noqa: B902
        pass
    return sim, tr


def run_conn(case):
    """Ids issued during savepoints and during an import are distinct from
    each other and from everything stored."""
    import transaction
    sim = ctx.activate(ctx.Sim(case['seed'], bufsize=case['bufsize']))
    st = dbh.make_storage(sim, case['kind'])
    tr = Tracker()
    pre = sorted(set(case.get('prestore', ())))
    if pre and not case['kind'].startswith('demo'):
        # arbitrary ids copied in before the database is used
        commit(st, [(p64(i), z64, rec(i)) for i in pre])
        tr.present.update(p64(i) for i in pre)
    db = dbh.make_db(sim, storage=st)
    tm = transaction.TransactionManager()
    conn = db.open(tm)
    try:
        root = conn.root()
        seen = {}

        def note(obj, where):
            oid = obj._p_oid
            if oid is None:
                return
            other = seen.get(oid)
            if other is not None and other is not obj:
                tr.flag('oid-reissued', '%s: two objects share id %r'
                        % (where, oid))
            if oid in tr.present and other is None:
                tr.flag('oid-exists', '%s: a new object got id %r which '
                        'was already stored' % (where, oid))
            seen[oid] = obj
        note(root, 'root')
        tr.present.discard(z64)
        made = []
        for i in range(case['n']):
            c = objs.Cell(i)
            root['k%d' % i] = c
            made.append(c)
            if i % 2 == 0:
                tm.savepoint()
                note(c, 'savepoint')
            else:
                conn.add(c)
                note(c, 'add')
        tm.commit()
        for c in made:
            note(c, 'commit')
        # export a subtree and import it again: fresh ids
        f = io.BytesIO()
        conn.exportFile(root['k0']._p_oid, f)
        f.seek(0)
        before = set(seen)
        imp = conn.importFile(f)
        tm.savepoint()
        note(imp, 'import')
        if imp._p_oid in before:
            tr.flag('oid-exists', 'import reused id %r' % imp._p_oid)
        root['imp'] = imp
        tm.commit()
        tr.trace = ['conn', len(seen)]
        tr.issued = list(seen)
    except Exception as e:      # noqa: B902
        import traceback
        tr.flag('history-raises', '%s: %s | %s' % (
            type(e).__name__, str(e)[:80],
            ' / '.join(x.strip()[:70] for x in
                       traceback.format_exc().strip().splitlines()[-4:-1])))
    finally:
        try:
            tm.abort()
            db.close()
        except Exception:       # noqa: B902
            pass
    return sim, tr


def run(case):
    if case['arm'] == 'hist':
        sim, tr = run_hist(case)
    elif case['arm'] == 'sched':
        sim, tr = run_sched(case)
    else:
        sim, tr = run_conn(case)
    stats = {'sim_time_s': sim.clock.elapsed(), 'arm:' + case['arm']: 1,
             'kind:' + case['kind']: 1, 'allocations': len(tr.issued),
             'present_oids': len(tr.present)}
    if case['arm'] == 'sched' and case['sched'].get('fine'):
        stats['fine_mode_runs'] = 1
    nontrivial = len(tr.issued) >= 3 and (tr.present or case['arm']
                                          != 'hist')
    return {
        'violations': [{'oracle': o, 'detail': x} for o, x in tr.viol[:20]],
        'stats': stats,
        'keys': ['%s|%s|%s' % (case['arm'], case['kind'],
                               ','.join(map(str, tr.trace)))]
        if nontrivial else [],
        'evals': 1,
        'sample': {k: v for k, v in case.items()
                   if k not in ('seed', 'check')},
        'digest': sim.digest(repr(tr.issued), tr.viol, tr.trace),
        'schedule': getattr(tr, 'schedule', None),
    }


LEVEL_TEXT = ('seeded search over allocation histories and allocator '
              'schedules on every bundled storage kind, with restarts of '
              'the simulated process, ids allocated inside commits that abort, adversarial randomness for '
              'DemoStorage and line-level pre-emption of concurrent '
              'allocators; every id handed out is checked against the ids '
              'of the session and the oids present in any layer.')
LEVEL_NOTE = ('present oids are tracked by the harness from committed '
              'stores; histories <= 24 ops, <= 4 allocator tasks; trusted: '
              'scheduler, tracker')
TECHNIQUE = ('deterministic simulation: seeded allocation histories with '
             'restarts and adversarial randomness, seeded scheduler with '
             'line-level pre-emption for concurrent allocators')
