"""Minimisation of a failing case: ddmin over its list-valued fields, then
simplification of individual ops, keeping the same violation class."""

import copy
import time


_HEAD = [None]      # for "...raises" oracles: the exception type wanted


def _same(v, oracle):
    if v['oracle'] != oracle:
        return False
    if _HEAD[0] is not None and oracle.endswith('raises'):
        # "program-raises: IndexError ..." is not "program-raises:
        # POSKeyError ...": a shrunk case must fail the same way
        return _exc_name(v['detail']) == _HEAD[0]
    return True


def _exc_name(detail):
    """The exception class a "...raises" detail names: its first
    ':'-separated field that looks like one ("where: POSKeyError: ...")."""
    for part in detail.split(':')[:3]:
        part = part.strip()
        if part.isidentifier() and part[:1].isupper() and \
                part.endswith(('Error', 'Exception', 'Interrupt', 'Exit',
                               'Timeout')):
            return part
    return None


def _fails(mod, case, oracle):
    from . import runner
    try:
        res = runner.run_one(mod, case)
    except BaseException:       # noqa: B902 -- a crash is not "the same"
        return False
    return any(_same(v, oracle) for v in res.get('violations', ()))


def _get(case, path):
    x = case
    for p in path:
        x = x[p]
    return x


def _set(case, path, value):
    x = case
    for p in path[:-1]:
        x = x[p]
    x[path[-1]] = value


def ddmin_list(mod, case, path, oracle, deadline):
    items = list(_get(case, path))
    n = 2
    while len(items) >= 1 and time.time() < deadline:
        chunk = max(1, len(items) // n)
        removed = False
        i = 0
        while i < len(items) and time.time() < deadline:
            cand = items[:i] + items[i + chunk:]
            c2 = copy.deepcopy(case)
            _set(c2, path, cand)
            if _fails(mod, c2, oracle):
                items = cand
                case = c2
                removed = True
            else:
                i += chunk
        if not removed:
            if chunk == 1:
                break
            n = min(len(items), n * 2)
    return case


def _run(mod, case):
    from . import runner
    try:
        return runner.run_one(mod, case)
    except BaseException:       # noqa: B902
        return None


def _switches(sched):
    """Number of context switches an explicit schedule asks for."""
    n = 0
    last = None
    for x in sched:
        if x >= 0 and x != last:
            n += 1
            last = x
    return n


def minimise_schedule(mod, case, oracle, deadline):
    """For cases run under the task scheduler: make the schedule explicit
    (the list of task choices the seeded strategy made) and minimise it --
    cut its tail, then replace runs of choices by -1 ("stay with the
    running task") -- while the same violation class persists.  The
    replay file then carries the minimised schedule itself."""
    if case.get('schedule') is not None:
        return case
    res = _run(mod, case)
    if not res or not res.get('schedule'):
        return case
    if not any(_same(v, oracle) for v in res.get('violations', ())):
        return case
    sched = list(res['schedule'])
    c2 = dict(case, schedule=sched)
    if not _fails(mod, c2, oracle):
        return case             # (does not happen: replay is exact)
    # 1. shortest failing prefix (binary search, then verify)
    lo, hi = 0, len(sched)
    while lo < hi and time.time() < deadline:
        mid = (lo + hi) // 2
        if _fails(mod, dict(case, schedule=sched[:mid]), oracle):
            hi = mid
        else:
            lo = mid + 1
    if hi < len(sched) and _fails(mod, dict(case, schedule=sched[:hi]),
                                  oracle):
        sched = sched[:hi]
    # 2. chunks of choices -> "stay"
    n = 2
    while sched and time.time() < deadline:
        chunk = max(1, len(sched) // n)
        changed = False
        i = 0
        while i < len(sched) and time.time() < deadline:
            seg = sched[i:i + chunk]
            if any(x != -1 for x in seg):
                cand = sched[:i] + [-1] * len(seg) + sched[i + chunk:]
                if _fails(mod, dict(case, schedule=cand), oracle):
                    sched = cand
                    changed = True
            i += chunk
        if chunk == 1:
            break
        if not changed or True:
            n = min(len(sched), n * 2)
    while sched and sched[-1] == -1:
        sched.pop()
    out = dict(case, schedule=sched)
    out['schedule_note'] = ('explicit schedule: task index chosen at each '
                            'decision with more than one runnable task; '
                            '-1 or past the end = stay with the running '
                            'task; %d of %d decisions left, %d switches '
                            'requested' % (len([x for x in sched if x >= 0]),
                                           len(res['schedule']),
                                           _switches(sched)))
    return out


def shrink(mod, case, violation, deadline):
    _HEAD[0] = _exc_name(violation.get('detail', '')) \
        if violation['oracle'].endswith('raises') else None
    case = _shrink(mod, case, violation, deadline)
    try:
        return minimise_schedule(mod, case, violation['oracle'],
                                 deadline + 30)
    except Exception:           # noqa: B902 -- minimisation is best effort
        return case


def _shrink(mod, case, violation, deadline):
    oracle = violation['oracle']
    case = copy.deepcopy(case)
    paths = [tuple(p) if isinstance(p, (list, tuple)) else (p,)
             for p in getattr(mod, 'SHRINK', ['ops'])]
    for rounds in range(2):
        for path in paths:
            try:
                _get(case, path)
            except (KeyError, IndexError, TypeError):
                continue
            case = ddmin_list(mod, case, path, oracle, deadline)
            # a list of lists (one script per client): each inner list
            try:
                inner = _get(case, path)
            except (KeyError, IndexError, TypeError):
                continue
            for i, item in enumerate(inner):
                if isinstance(item, list) and len(item) > 1:
                    case = ddmin_list(mod, case, path + (i,), oracle,
                                      deadline)
        # second level: lists inside ops (records of a transaction)
        for path in paths:
            try:
                ops = _get(case, path)
            except (KeyError, IndexError, TypeError):
                continue
            for i, op in enumerate(ops):
                if not isinstance(op, dict):
                    continue
                for k, v in list(op.items()):
                    if time.time() > deadline:
                        return case
                    if isinstance(v, list) and len(v) > 1:
                        case = ddmin_list(mod, case, path + (i, k), oracle,
                                          deadline)
                    elif k in ('meta',) and v:
                        c2 = copy.deepcopy(case)
                        _get(c2, path)[i].pop(k)
                        if _fails(mod, c2, oracle):
                            case = c2
        simp = getattr(mod, 'simplify', None)
        if simp is not None:
            for c2 in simp(case):
                if time.time() > deadline:
                    return case
                if _fails(mod, c2, oracle):
                    case = c2
    return case
