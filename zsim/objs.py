"""Persistent classes used by workloads, and helpers to build / decode ZODB
data records without going through ZODB's own serializer."""

import io
import pickle

import persistent

from ZODB.POSException import ConflictError

RESOLVE_CALLS = []      # (class name, old, committed, new) -- reset per run


def reset():
    del RESOLVE_CALLS[:]


class Cell(persistent.Persistent):
    """No conflict resolution."""

    def __init__(self, token=None):
        self.token = token
        self.refs = []
        self.n = 0
        self.log = []


class Eager(Cell):
    """Reloads its state the moment it is invalidated, as persistent
    classes (ZODB.persistentclass) and objects with a re-activating
    _p_invalidate do: it never waits as a ghost."""

    def _p_invalidate(self):
        Cell._p_invalidate(self)
        if self._p_jar is not None and self._p_oid is not None:
            try:
                self._p_activate()
            except Exception:       # noqa: B902 -- stays a ghost then
                pass


def merge_states(old, committed, new):
    """The deterministic three-way merge every Merge-like class uses."""
    out = dict(new)
    out['n'] = committed.get('n', 0) + new.get('n', 0) - old.get('n', 0)
    olog = old.get('log', [])
    out['log'] = list(committed.get('log', [])) + [
        x for x in new.get('log', []) if x not in olog]
    out['token'] = ['m', committed.get('token'), new.get('token')]
    # keep every reference of both sides (no comparisons between refs)
    refs = list(committed.get('refs', [])) + list(new.get('refs', []))
    out['refs'] = refs
    return out


class Merge(Cell):

    def _p_resolveConflict(self, old, committed, new):
        RESOLVE_CALLS.append(('Merge', old, committed, new))
        return merge_states(old, committed, new)


class Flaky(Merge):
    """A resolver that fails for some inputs the way resolvers usually
    fail (AttributeError: sub-objects are placeholders inside a resolver)
    and merges the others."""

    def _p_resolveConflict(self, old, committed, new):
        RESOLVE_CALLS.append(('Flaky', old, committed, new))
        if new.get('n', 0) % 2:
            raise AttributeError("'PersistentReference' object has no "
                                 "attribute 'value'")
        return merge_states(old, committed, new)


class Boom(Cell):

    def _p_resolveConflict(self, old, committed, new):
        RESOLVE_CALLS.append(('Boom', old, committed, new))
        raise ValueError('resolver failed on purpose')


class Boom2(Cell):

    def _p_resolveConflict(self, old, committed, new):
        RESOLVE_CALLS.append(('Boom2', old, committed, new))
        raise ConflictError('resolver says conflict')


class NewArgs(Cell):
    """A class with __getnewargs__: references to it are bare oids."""

    def __getnewargs__(self):
        return ()


CLASSES = {'Cell': Cell, 'Eager': Eager, 'Merge': Merge, 'Flaky': Flaky,
           'Boom': Boom,
           'Boom2': Boom2, 'NewArgs': NewArgs}

MODULE = 'zsim.objs'


class Ref:
    """A persistent reference inside a hand-built state.

    fmt: 'oc'  (oid, class)           -- the usual strong reference
         'o'   oid alone              -- classes with __getnewargs__
         'w'   ['w', (oid,)]          -- weak reference
         'n'   ['n', (dbname, oid)]   -- cross-database, oid only
         'm'   ['m', (dbname, oid, class)]
    Only 'oc' and 'o' are strong same-database references (what
    referencesf must report and what keeps an object alive in pack).
    """
    __slots__ = ('oid', 'fmt', 'cls')

    def __init__(self, oid, fmt='oc', cls='Cell'):
        self.oid = oid
        self.fmt = fmt
        self.cls = cls

    def pid(self):
        if self.fmt == 'oc':
            return (self.oid, _ClassRef(self.cls))
        if self.fmt == 'o':
            return self.oid
        if self.fmt == 'w':
            return ['w', (self.oid,)]
        if self.fmt == 'n':
            return ['n', ('other', self.oid)]
        if self.fmt == 'm':
            return ['m', ('other', self.oid, _ClassRef(self.cls))]
        raise ValueError(self.fmt)

    def strong(self):
        return self.fmt in ('oc', 'o')

    def key(self):
        return (self.fmt, self.oid)

    def __repr__(self):
        return 'Ref(%r,%s)' % (self.oid, self.fmt)


class _ClassRef:
    """Pickles as a global reference to zsim.objs.<name> (or to a class of a
    module that does not exist, for the non-importable case)."""

    def __init__(self, name):
        self.name = name


class _P(pickle._Pickler):
    """Pure-Python pickler so that we control how class refs are emitted."""

    def persistent_id(self, obj):
        if isinstance(obj, Ref):
            return obj.pid()
        return None

    def save_classref(self, obj):
        mod = MODULE
        name = obj.name
        if name.startswith('!'):
            mod, name = 'zsim_no_such_module', name[1:]
        self.write(pickle.GLOBAL + mod.encode() + b'\n' + name.encode()
                   + b'\n')

    dispatch = dict(pickle._Pickler.dispatch)
    dispatch[_ClassRef] = save_classref


def make_record(cls, state):
    """ZODB data record: pickle(class) + pickle(state).  `state` may contain
    Ref objects.  cls is a name in CLASSES, or '!Name' for a class that
    cannot be imported."""
    f = io.BytesIO()
    p = _P(f, 3)
    p.dump(_ClassRef(cls))
    p = _P(f, 3)
    p.dump(state)
    return f.getvalue()


class _Marker:
    def __init__(self, key):
        self.key = key

    def __eq__(self, other):
        return isinstance(other, _Marker) and self.key == other.key

    def __hash__(self):
        return hash(self.key)

    def __repr__(self):
        return 'PRef%r' % (self.key,)


class _U(pickle._Unpickler):

    def find_class(self, module, name):
        return ('class', module, name)

    def persistent_load(self, pid):
        return _Marker(_canon_pid(pid))


def _canon_pid(pid):
    """(fmt, oid) for any reference format."""
    def b(x):
        return x.encode('ascii') if isinstance(x, str) else x
    if isinstance(pid, tuple):
        if pid[1] is None:
            # (oid, None): the class got lost -- not loadable
            return ('oc-without-class', b(pid[0]))
        return ('oc', b(pid[0]))
    if isinstance(pid, (bytes, str)):
        return ('o', b(pid))
    if isinstance(pid, list):
        t = pid[0]
        if t == 'w':
            return ('w', b(pid[1][0]))
        if t == 'n':
            return ('n', b(pid[1][1]))
        if t == 'm':
            return ('m', b(pid[1][1]))
        return ('w', b(t))
    return ('?', repr(pid))


def decode_record(data):
    """(class description, state) with references shown as markers.
    Independent of ZODB.serialize."""
    f = io.BytesIO(data)
    u = _U(f)
    meta = u.load()
    state = u.load()
    return meta, state


def canon_state(state):
    """State with Ref / PersistentReference objects replaced by markers, so a
    state computed by the harness can be compared with a decoded record."""
    if isinstance(state, Ref):
        return _Marker(state.key())
    if isinstance(state, _Marker):
        return state
    if isinstance(state, dict):
        return {k: canon_state(v) for k, v in state.items()}
    if isinstance(state, (list, tuple)):
        return [canon_state(v) for v in state]
    data = getattr(state, 'data', None)
    if data is not None and type(state).__name__ == 'PersistentReference':
        return _Marker(_canon_pid(data))
    return state
