"""Command line: bin/zsim check Cxx --tier quick|thorough ; replay ; selftest."""

import argparse
import os
import sys


def main(argv=None):
    ap = argparse.ArgumentParser(prog='zsim')
    sub = ap.add_subparsers(dest='cmd', required=True)
    c = sub.add_parser('check')
    c.add_argument('cid')
    c.add_argument('--tier', default=os.environ.get('VERIF_TIER', 'quick'),
                   choices=['quick', 'thorough'])
    c.add_argument('--seed', type=int,
                   default=int(os.environ.get('VERIF_SEED', '0') or 0))
    c.add_argument('--runs', type=int)
    c.add_argument('--workers', type=int)
    c.add_argument('--wall', type=float)
    c.add_argument('--no-shrink', action='store_true')
    r = sub.add_parser('replay')
    r.add_argument('path')
    r.add_argument('--quiet', action='store_true')
    s = sub.add_parser('selftest')
    s.add_argument('what', choices=['smoke', 'determinism', 'mutants', 'digests'])
    s.add_argument('--checks', default='')
    s.add_argument('--seeds', type=int, default=40)
    a = ap.parse_args(argv)
    from . import runner
    if a.cmd == 'check':
        return runner.check(a.cid.upper(), a.tier, a.seed, a.runs, a.workers,
                            a.wall, not a.no_shrink)
    if a.cmd == 'replay':
        return runner.replay(a.path, a.quiet)
    if a.cmd == 'selftest':
        from . import selftest
        return selftest.main(a.what, a.checks, a.seeds)


if __name__ == '__main__':
    sys.exit(main())
