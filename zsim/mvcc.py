"""Multi-client worlds under the seeded scheduler: client programs over
shared cells, the recorded client history, and the history oracles used by
C02 (snapshots), C03 (lost updates) and C08 (pack under load)."""

import random

from ZODB.POSException import ConflictError
from ZODB.POSException import ReadConflictError
from ZODB.utils import u64

from . import ctx
from . import dbh
from . import objs
from . import sched as S
from .model import UNCREATE
from .model import Log

INF = b'\xff' * 8


class Recorder:
    """Client-visible events stamped with the simulator's global sequence
    number."""

    def __init__(self, sim):
        self.sim = sim
        self.events = []
        self.conn_ids = {}

    def cid(self, conn):
        k = id(conn)
        if k not in self.conn_ids:
            self.conn_ids[k] = len(self.conn_ids)
        return self.conn_ids[k]

    def add(self, *ev):
        seq = self.sim.event('h', ev[0])
        self.events.append((seq,) + ev)
        return seq

    def boundary(self, conn):
        self.add('B', self.cid(conn))


def install_boundary_hook():
    """Wrap Connection.newTransaction once; inert without a recorder."""
    from ZODB.Connection import Connection
    if getattr(Connection.newTransaction, '_zsim', False):
        return
    orig = Connection.newTransaction

    def newTransaction(self, transaction, sync=True):
        sim = ctx.CUR
        rec = getattr(sim, 'recorder', None) if sim is not None else None
        if rec is not None:
            rec.boundary(self)
        return orig(self, transaction, sync)
    newTransaction._zsim = True
    Connection.newTransaction = newTransaction


def install_finish_hook():
    """Record (tid, oids) of every commit at the moment the storage
    publishes it (inside its finish), attributed to the running task."""
    from ZODB.mvccadapter import MVCCAdapter
    if getattr(MVCCAdapter._invalidate_finish, '_zsim', False):
        return
    orig = MVCCAdapter._invalidate_finish

    def _invalidate_finish(self, tid, oids, committing_instance):
        sim = ctx.CUR
        rec = getattr(sim, 'recorder', None) if sim is not None else None
        if rec is not None:
            s = sim.sched
            who = s.current.idx if (s is not None and s.current is not None) \
                else -1
            rec.add('F', who, tid, sorted(oids), len(sim.fs.log))
        return orig(self, tid, oids, committing_instance)
    _invalidate_finish._zsim = True
    MVCCAdapter._invalidate_finish = _invalidate_finish


class World:

    def __init__(self, case):
        install_boundary_hook()
        install_finish_hook()
        self.case = case
        self.sim = ctx.activate(ctx.Sim(case['seed'],
                                        bufsize=case.get('bufsize', 8192),
                                        clock={'tick': case.get('tick',
                                                                0.37)}))
        self.kind = case['kind']
        self.db = dbh.make_db(self.sim, self.kind,
                              st_opts=case.get('st_opts'),
                              pool_size=case.get('pool_size', 7),
                              cache_size=case.get('cache_size', 400))
        self.rec = Recorder(self.sim)
        self.viol = []
        self.counter = 0
        self.ncell = case['ncell']
        self.stats = {}
        self.commits_ok = []        # (client, tokens written, invoke, ret)
        self.serial_obs = []
        self.setup()

    def flag(self, oracle, detail):
        if len(self.viol) < 20:
            self.viol.append((oracle, detail))

    def tok(self):
        self.counter += 1
        return self.counter

    def setup(self):
        c = dbh.Client(self.db, 'setup')
        c.open()
        root = c.root()
        classes = self.case.get('classes') or ['Cell'] * self.ncell
        for i in range(self.ncell):
            cell = objs.CLASSES[classes[i % len(classes)]](self.tok())
            cell.n = 0
            cell.log = []
            root['c%d' % i] = cell
        c.commit()
        self.oids = [root['c%d' % i]._p_oid for i in range(self.ncell)]
        c.close()
        self.sim.recorder = self.rec

    def storage_for_iteration(self):
        st = self.db.storage
        return st

    def final_log(self):
        log = Log()
        st = self.db.storage
        if self.kind.startswith('demo'):
            # base first, then changes
            dbh.adopt(log, st.base)
            dbh.adopt(log, st.changes)
        else:
            dbh.adopt(log, st)
        return log


class ClientTask:
    """Interprets one client's script inside a scheduler task."""

    def __init__(self, world, idx, script, explicit=False):
        self.w = world
        self.idx = idx
        self.script = script
        self.cl = dbh.Client(world.db, 'c%d' % idx, explicit=explicit)
        self.explicit = explicit
        self.txn_no = 0
        self.outcomes = []
        self.sched_idx = idx

    def cells(self):
        r = self.cl.root()
        return [r['c%d' % i] for i in range(self.w.ncell)]

    def read(self, cell, own):
        """Access the object and record what the connection shows."""
        tok = dbh.hashable(cell.token)
        oid = cell._p_oid
        if oid in own:
            if tok != own[oid]:
                self.w.flag('own-write-lost', 'client %d reads %r after '
                            'writing %r in the same transaction'
                            % (self.idx, tok, own[oid]))
            return tok
        self.w.rec.add('R', self.idx, self.w.rec.cid(self.cl.conn),
                       self.txn_no, oid, cell._p_serial, tok)
        return tok

    def run(self):
        w = self.w
        rec = w.rec
        cl = self.cl
        cl.open()
        for txn in self.script:
            kind = txn.get('t', 'txn')
            if kind == 'reopen':
                cl.abort()
                cl.close()
                cl.open()
                continue
            if kind == 'minimize':
                cl.conn.cacheMinimize()
                continue
            if kind == 'sync':
                cl.abort()
                cl.conn.sync()
                continue
            # (DB.cacheMinimize() from another task is not generated: it
            # ghostifies objects of a connection that is in the middle of
            # registering them -- connections and their caches are not
            # thread-safe by design, no listed property says otherwise)
            if kind == 'invalidate_cache':
                # what a storage does that cannot tell what changed (the
                # IStorageWrapper callback): every connection drops its
                # whole cache at its next boundary
                inv = getattr(w.db._mvcc_storage, 'invalidateCache', None)
                if inv is not None:
                    inv()
                continue
            if kind == 'cache_gc':
                cl.conn.cacheGC()
                continue
            self.txn_no += 1
            own = {}
            written = []
            phase = 'read'
            if kind == 'undo':
                self.do_undo(txn)
                continue
            try:
                rec.add('T', self.idx, rec.cid(cl.conn), self.txn_no)
                cl.begin()
                cells = self.cells()
                for step in txn['steps']:
                    c = cells[step[1] % len(cells)]
                    if step[0] == 'r':
                        self.read(c, own)
                    elif step[0] == 'w':
                        self.read(c, own)       # read-modify-write
                        t = w.tok()
                        base = (c._p_serial, c.token)
                        c.token = t
                        if c._p_oid in own:
                            # second write in one transaction: one token
                            # per committed revision
                            c.log = c.log[:-1] + [t]
                        else:
                            c.n = c.n + 1
                            c.log = c.log + [t]
                        if c._p_oid not in own:
                            written.append((c._p_oid, t, base))
                        else:
                            written = [(o, (t if o == c._p_oid else x), b)
                                       for o, x, b in written]
                        own[c._p_oid] = t
                    elif step[0] == 'rc':
                        # declare a dependency on c being current
                        self.read(c, own)
                        cl.conn.readCurrent(c)
                        rec.add('RC', self.idx, self.txn_no, c._p_oid,
                                c._p_serial)
                    elif step[0] == 'wrcd':
                        # modify, declare the dependency while modified,
                        # then discard the modification: the object is not
                        # written, the declaration stands
                        self.read(c, own)
                        if c._p_oid in own:
                            continue
                        serial = c._p_serial
                        c.token = w.tok()
                        cl.conn.readCurrent(c)
                        rec.add('RC', self.idx, self.txn_no, c._p_oid,
                                serial)
                        c._p_invalidate()
                    elif step[0] == 'rcsprb':
                        # declare the dependency, savepoint, modify, a
                        # second savepoint (stores the object in the
                        # temporary storage), roll back to the first: the
                        # object is not written, the declaration stands
                        self.read(c, own)
                        if c._p_oid in own:
                            continue
                        cl.conn.readCurrent(c)
                        rec.add('RC', self.idx, self.txn_no, c._p_oid,
                                c._p_serial)
                        sp0 = cl.tm.savepoint()
                        c.token = w.tok()
                        cl.tm.savepoint()
                        sp0.rollback()
                    elif step[0] == 'sprb':
                        # a speculative change: savepoint, modify, a second
                        # savepoint (which saves the object for the first
                        # time), roll back to the first; what is read
                        # afterwards is the snapshot's state again
                        self.read(c, own)
                        if c._p_oid in own:
                            continue
                        sp0 = cl.tm.savepoint()
                        c.token = w.tok()
                        cl.tm.savepoint()
                        sp0.rollback()
                        self.read(c, own)
                    elif step[0] == 'sp':
                        cl.tm.savepoint()
                if txn.get('end', 'commit') == 'abort':
                    cl.abort()
                    self.outcomes.append('abort')
                    rec.add('A', self.idx, self.txn_no)
                    continue
                if txn.get('end') == 'failvote':
                    # another participant votes no after the storage has
                    # voted: the transaction is aborted with its records
                    # already written behind the committed end
                    from .connshadow import Boom, FailingDM
                    cl.tm.get().join(FailingDM('tpc_vote', first=False))
                    phase = 'commit'
                    try:
                        cl.commit()
                    except Boom:
                        pass
                    cl.abort()
                    self.outcomes.append('abort')
                    rec.add('A', self.idx, self.txn_no)
                    continue
                inv = rec.add('CI', self.idx, self.txn_no,
                              [x[:2] for x in written])
                phase = 'commit'
                cl.commit()
                ret = rec.add('CR', self.idx, self.txn_no,
                              [x[:2] for x in written],
                              len(w.sim.fs.log))
                w.commits_ok.append((self.idx, self.txn_no, written, inv,
                                     ret))
                self.outcomes.append('commit')
                # what the committed objects carry as their serial now
                # (unless they were invalidated again at the boundary)
                for oid, t, _b in written:
                    o = cl.conn._cache.get(oid)
                    if o is not None and o._p_changed is False:
                        w.serial_obs.append((self.idx, self.txn_no, oid, t,
                                             o._p_serial))
            except ConflictError as e:
                self.outcomes.append('readconflict'
                                     if isinstance(e, ReadConflictError)
                                     else 'conflict')
                rec.add('X', self.idx, self.txn_no, type(e).__name__, phase,
                        getattr(cl.conn._normal_storage, '_start', None))
                cl.abort()
            except ctx.SimAbort:
                raise
            except Exception as e:      # noqa: B902
                import traceback
                tb = traceback.format_exc().strip().splitlines()
                w.flag('client-exception', 'client %d transaction %d raised '
                       '%s: %s | %s' % (self.idx, self.txn_no,
                                        type(e).__name__, str(e)[:80],
                                        ' / '.join(x.strip()[:70]
                                                   for x in tb[-5:-1])))
                try:
                    cl.abort()
                except Exception:       # noqa: B902
                    pass
                break
        try:
            cl.abort()
            cl.close()
        except ctx.SimAbort:
            raise
        except Exception as e:          # noqa: B902
            w.flag('client-exception', 'client %d close raised %s'
                   % (self.idx, type(e).__name__))


def _do_undo(self, txn):
    """Undo one of this client's own recent commits through DB.undo."""
    from ZODB.POSException import UndoError
    from .model import undo_id
    w = self.w
    mine = [ev[3] for ev in w.rec.events
            if ev[1] == 'F' and ev[2] == self.sched_idx]
    if not mine:
        return
    tid = mine[txn.get('k', -1) % len(mine)]
    cl = self.cl
    try:
        cl.begin()
        w.db.undo(undo_id(tid), cl.tm.get())
        w.rec.add('UI', self.idx, self.txn_no, tid)
        cl.commit()
        w.rec.add('UR', self.idx, self.txn_no, tid)
        self.outcomes.append('undo')
    except UndoError:
        self.outcomes.append('undo-refused')
        cl.abort()
    except ConflictError:
        self.outcomes.append('conflict')
        cl.abort()


ClientTask.do_undo = _do_undo


def gen_script(r, ncell, ntxn, write_p=0.5, rc_p=0.0, abort_p=0.08,
               misc_p=0.15):
    out = []
    for _ in range(ntxn):
        x = r.random()
        if x < misc_p:
            out.append({'t': r.choice(('reopen', 'minimize', 'sync', 'reopen',
                                       'minimize', 'sync',
                                       'invalidate_cache', 'cache_gc'))})
            continue
        steps = []
        for _ in range(r.randint(1, 4)):
            y = r.random()
            k = r.randrange(ncell)
            if y < write_p:
                steps.append(['w', k])
            elif y < write_p + rc_p:
                steps.append([r.choice(('rc', 'rc', 'wrcd', 'rcsprb')), k])
            else:
                steps.append(['r', k])
        if r.random() < 0.1:
            steps.insert(r.randrange(len(steps) + 1),
                         r.choice((['sp', 0], ['sp', 0],
                                   ['sprb', r.randrange(ncell)])))
        t = {'steps': steps}
        if r.random() < abort_p:
            t['end'] = r.choice(('abort', 'failvote'))
        out.append(t)
    return out


def gen_pokers(r, ncell):
    """Bystander threads that ask the storage itself questions while the
    clients commit, undo and resolve conflicts: getTid, history,
    loadSerial, undoLog, lastInvalidations -- the read-only calls that go
    through the storage's own file handle rather than a pooled one."""
    out = []
    for _ in range(r.choice((1, 1, 2))):
        out.append({'delay': r.choice((0, 20, 60, 150, 300)),
                    'gap': r.choice((0, 1, 3, 8, 20)),
                    'calls': [[r.choice(('getTid', 'history', 'loadSerial',
                                         'loadSerial', 'undoLog',
                                         'lastInvalidations')),
                               r.randrange(ncell)]
                              for _ in range(r.randint(5, 40))]})
    return out


def poker_task(spec, results):
    def run(w):
        s = w.sim.sched
        for _ in range(spec['delay']):
            s.yield_point('idle', None)
        st = w.db.storage
        for kind, k in spec['calls']:
            oid = w.oids[k % len(w.oids)]
            try:
                if kind == 'getTid':
                    r = st.getTid(oid)
                elif kind == 'history':
                    r = [d['tid'] for d in st.history(oid, size=4)]
                elif kind == 'loadSerial':
                    tid = st.getTid(oid)
                    r = (tid, st.loadSerial(oid, tid))
                elif kind == 'undoLog':
                    r = len(st.undoLog(0, -6)) if hasattr(st, 'undoLog') \
                        else 0
                else:
                    r = len(st.lastInvalidations(5) or ()) \
                        if hasattr(st, 'lastInvalidations') else 0
                results.append((kind, oid, r, None))
            except Exception as e:      # noqa: B902
                results.append((kind, oid, None, e))
            for _ in range(spec['gap']):
                s.yield_point('idle', None)
    return run


def check_serials(w, log):
    """After a commit the connection's copy of a written object carries the
    id of the transaction that stored it."""
    for idx, txn_no, oid, token, serial in w.serial_obs:
        # (an undo can bring the same state back under a later id: the
        # first revision with the token is the client's own)
        hit = None
        for tid, r in log.revisions(oid):
            if r.data is not None and dbh.token_of(r.data) == token:
                hit = tid
                break
        if hit is not None and serial != hit:
            w.flag('serial-after-commit', 'client %d transaction %d wrote '
                   'token %r of %r in %r; afterwards its copy carries serial '
                   '%r' % (idx, txn_no, token, oid, hit, serial))
            break


def check_pokers(w, log, results, packed=False):
    """What the bystanders were told is part of the committed history
    (packed: revisions may have been removed since, only what is still
    there is compared)."""
    from ZODB.POSException import POSKeyError
    for kind, oid, r, e in results:
        w.stats['poker:' + kind] = w.stats.get('poker:' + kind, 0) + 1
        if e is not None:
            if isinstance(e, (POSKeyError, NotImplementedError)):
                continue    # (packed away / not offered by the storage)
            w.flag('bystander-exception', '%s(%r) raised %s: %s'
                   % (kind, oid, type(e).__name__, str(e)[:80]))
            continue
        revs = dict(log.revisions(oid)) if hasattr(log, 'revisions') else {}
        if log.has_shadow():
            revs.update(dict(log.shadow_view().revisions(oid)))
        if packed and kind in ('getTid', 'history'):
            continue
        if kind == 'getTid' and r not in revs and revs:
            w.flag('bystander-answer', 'getTid(%r) = %r, which is no '
                   'committed revision of it' % (oid, r))
        elif kind == 'history' and revs and any(t not in revs for t in r):
            w.flag('bystander-answer', 'history(%r) names %r, committed '
                   'revisions are %r' % (oid, r, sorted(revs)))
        elif kind == 'loadSerial' and r[0] in revs and \
                revs[r[0]].data is not None and r[1] != revs[r[0]].data:
            w.flag('bystander-answer', 'loadSerial(%r, %r) returned other '
                   'bytes than that revision holds' % (oid, r[0]))


def run_world(case, extra_tasks=None):
    """Build the world, run the client tasks under the scheduler, return
    (world, sched)."""
    w = World(case)
    sc = case.get('sched', {})
    s = S.Sched(w.sim, strategy=sc.get('strategy', 'random'),
                p_stay=sc.get('p_stay', 0.5),
                max_steps=sc.get('max_steps', 20000),
                schedule=case.get('schedule'),
                pct_depth=sc.get('pct_depth', 3),
                est_steps=sc.get('est_steps', 800),
                fine=sc.get('fine'))
    tasks = []
    for i, script in enumerate(case['scripts']):
        ct = ClientTask(w, i, script,
                        explicit=bool(case.get('explicit', [0] * 9)[i % 9]))
        tasks.append(ct)
        s.spawn('client%d' % i, ct.run)
    for name, fn in (extra_tasks or []):
        s.spawn(name, lambda fn=fn: fn(w))
    w.poker_results = []
    for i, spec in enumerate(case.get('pokers') or ()):
        fn = poker_task(spec, w.poker_results)
        s.spawn('bystander%d' % i, lambda fn=fn: fn(w))
    w.tasks = tasks
    s.run()
    w.sched = s
    if s.deadlock:
        w.flag('deadlock', 'no task can run: %r' % (s.deadlock,))
    for t in s.tasks:
        if t.exc is not None:
            w.flag('task-exception', '%s raised %s: %s | %s'
                   % (t.name, type(t.exc).__name__, str(t.exc)[:80],
                      ' / '.join(x.strip()[:70] for x in
                                 (t.tb or '').strip().splitlines()[-5:-1])))
    w.stats['yield_points'] = s.steps
    w.stats['switches'] = s.switches
    if s.capped:
        w.stats['inconclusive_step_cap'] = 1
    return w, s


# ---------------------------------------------------------------------------
# oracles over the recorded history


def revisions_by_oid(log):
    out = {}
    for oid in log.oids():
        revs = []
        for tid, r in log.revisions(oid):
            tok = None if r.kind == UNCREATE else dbh.token_of(r.data)
            revs.append((tid, tok))
        out[oid] = revs
    return out


def full_history(w, log):
    """Per oid the complete list of (tid, token) revisions: what the
    storage still holds plus every commit published during the run (a
    concurrent pack may have removed old revisions from the storage)."""
    revs = {oid: dict((tid, dbh.leaf_token(tok)) for tid, tok in lst)
            for oid, lst in revisions_by_oid(log).items()}
    # tokens written per (task idx, txn): from CI events
    pending = {}
    for ev in w.rec.events:
        if ev[1] == 'CI':
            pending[ev[2]] = dict(ev[4])
        elif ev[1] == 'UI':
            pending[ev[2]] = {}
        elif ev[1] == 'F':
            _, _, who, tid, oids, logidx = ev
            toks = pending.get(who, {})
            for oid in oids:
                d = revs.setdefault(oid, {})
                if tid not in d:
                    # token unknown for undo transactions: wildcard
                    d[tid] = toks.get(oid, ANY)
    return {oid: sorted(d.items()) for oid, d in revs.items()}


class _Any:
    def __eq__(self, other):
        return True

    def __hash__(self):
        return 0

    def __repr__(self):
        return '*'


ANY = _Any()


def check_snapshots(w, log, revs=None):
    """C02 (1)-(3) over the recorded history."""
    if revs is None:
        revs = revisions_by_oid(log)
    tok_tid = {}
    for oid, lst in revs.items():
        for tid, tok in lst:
            # first occurrence: an undo can bring a token back later
            tok_tid.setdefault((oid, dbh.leaf_token(tok)), tid)
    # commits that returned: tid from the tokens they wrote
    ret_tids = []           # (return seq, tid)
    for (ci, txn_no, written, inv, ret) in w.commits_ok:
        tids = {tok_tid.get((oid, tok)) for oid, tok, base in written}
        if not written:
            continue
        if None in tids or len(tids) != 1:
            w.flag('commit-not-in-history', 'commit of client %d txn %d '
                   'returned but its writes %r are not one transaction of '
                   'the committed history' % (ci, txn_no,
                                              [x[:2] for x in written]))
            continue
        ret_tids.append((ret, tids.pop()))
    # group reads per (client, txn_no); find the boundary that precedes the
    # first read on that connection
    last_boundary = {}          # conn -> seq of latest boundary entry
    txn_reads = {}
    txn_boundary = {}
    for ev in w.rec.events:
        seq, kind = ev[0], ev[1]
        if kind == 'B':
            last_boundary[ev[2]] = seq
        elif kind == 'R':
            _, _, ci, conn, txn_no, oid, serial, tok = ev
            key = (ci, txn_no)
            txn_reads.setdefault(key, []).append((oid, serial, tok, seq))
            # the boundary in force when the read happened
            txn_boundary[key] = last_boundary.get(conn, 0)
    n_checked = 0
    for key, reads in sorted(txn_reads.items()):
        lo = b'\0' * 8
        hi = INF
        bad = False
        for oid, serial, tok, seq in reads:
            lst = revs.get(oid, [])
            nxt = None
            found = False
            for i, (tid, t) in enumerate(lst):
                if tid == serial and (t == tok
                                      or t == dbh.leaf_token(tok)):
                    found = True
                    nxt = lst[i + 1][0] if i + 1 < len(lst) else INF
            if not found:
                w.flag('read-not-in-history', 'client %d txn %d read object '
                       '%r = token %r serial %r, which no committed '
                       'revision has' % (key[0], key[1], oid, tok, serial))
                bad = True
                break
            lo = max(lo, serial)
            hi = min(hi, nxt)
        if bad:
            continue
        n_checked += 1
        if not lo < hi:
            w.flag('inconsistent-snapshot', 'client %d txn %d read states '
                   'that never coexisted: reads %r'
                   % (key[0], key[1],
                      [(u64(o), t, u64(s)) for o, s, t, q in reads]))
            continue
        # freshness: the snapshot is no older than the last commit that had
        # returned before the boundary was entered
        bseq = txn_boundary[key]
        fresh = b'\0' * 8
        for ret, tid in ret_tids:
            if ret < bseq and tid > fresh:
                fresh = tid
        if not max(lo, fresh) < hi:
            w.flag('stale-snapshot', 'client %d txn %d read a snapshot '
                   'older than commit %r that had returned before its '
                   'boundary (an object it read was changed at or before '
                   'that commit: next revision %r)'
                   % (key[0], key[1], fresh, hi))
    w.stats['txns_with_reads_checked'] = n_checked
    return n_checked


def check_final_state(w, log):
    """After the tasks finish a fresh connection reads the final committed
    state."""
    revs = revisions_by_oid(log)
    c = dbh.Client(w.db, 'final')
    try:
        c.open()
        root = c.root()
        for i in range(w.ncell):
            cell = root['c%d' % i]
            want = revs[cell._p_oid][-1]
            try:
                tk = dbh.hashable(cell.token)
                got = (cell._p_serial, tk)
            except Exception as e:      # noqa: B902
                got = ('err', type(e).__name__)
            if got != want:
                w.flag('final-state', 'fresh connection reads %r for cell '
                       '%d, committed history ends with %r' % (got, i, want))
        c.abort()
        c.close()
    except Exception as e:      # noqa: B902
        w.flag('final-state', 'fresh connection raised %s: %s'
               % (type(e).__name__, str(e)[:80]))


def check_no_lost_updates(w, log, allow_gaps=False):
    """C03: every committed revision of a shared cell derives from the
    revision immediately preceding it.  allow_gaps: a pack may have removed
    intermediate revisions."""
    nrev = 0
    undone = undone_oids(w)
    utids = undo_tids(w)
    for oid in w.oids:
        prev_log = None
        prev_n = None
        for tid, r in log.revisions(oid):
            if r.kind == UNCREATE:
                continue
            try:
                _, st = objs.decode_record(r.data)
            except Exception:       # noqa: B902
                continue
            lg, n = st.get('log', []), st.get('n', 0)
            if tid in utids:
                # written by an undo: restores an earlier state (tokens
                # legitimately disappear); its successor must derive from
                # *this* state
                prev_log, prev_n = lg, n
                continue
            if prev_log is not None:
                nrev += 1
                cls = r.cls
                if cls in ('Merge',):
                    # merged revisions keep every token of both sides
                    if not (set(prev_log) <= set(lg)
                            and len(lg) == len(set(lg))):
                        w.flag('lost-update', 'revision %r of %r (merging '
                               'class) lost tokens of its predecessor: %r '
                               '-> %r' % (tid, oid, prev_log, lg))
                elif allow_gaps:
                    if lg[:len(prev_log)] != prev_log or \
                            len(lg) <= len(prev_log):
                        w.flag('lost-update', 'revision %r of %r does not '
                               'extend an earlier remaining revision: log '
                               '%r after %r' % (tid, oid, lg, prev_log))
                else:
                    if lg[:-1] != prev_log or n != prev_n + 1:
                        w.flag('lost-update', 'revision %r of %r was not '
                               'derived from the revision immediately '
                               'before it: log %r after %r'
                               % (tid, oid, lg, prev_log))
            prev_log, prev_n = lg, n
        # every successful writer is in the final log exactly once
        # (an undo legitimately takes tokens away)
        if prev_log is not None and oid not in undone:
            toks = [tok for (ci, tn, written, inv, ret) in w.commits_ok
                    for (o, tok, base) in written if o == oid]
            missing = [t for t in toks if t not in prev_log]
            if missing and log.revisions(oid)[-1][1].kind != UNCREATE:
                w.flag('lost-update', 'writes %r to %r were acknowledged '
                       'but are not in its final state %r'
                       % (missing, oid, prev_log))
            extra = [t for t in prev_log if t not in toks
                     and t not in getattr(w, 'preknown', ())]
            if extra:
                w.flag('phantom-update', 'final state of %r contains %r '
                       'which no acknowledged commit wrote' % (oid, extra))
    w.stats['revisions_checked'] = nrev


def undo_tids(w):
    """ids of the transactions that are undos (recorded at publication)."""
    out = set()
    last = {}
    for ev in getattr(getattr(w, 'rec', None), 'events', ()):
        if ev[1] in ('CI', 'UI'):
            last[ev[2]] = ev[1]
        elif ev[1] == 'F':
            if last.pop(ev[2], None) == 'UI':
                out.add(ev[3])
    return out


def undone_oids(w):
    """oids written by transactions that a client undid successfully."""
    events = getattr(getattr(w, 'rec', None), 'events', ())
    undone_tids = {ev[4] for ev in events if ev[1] == 'UR'}
    out = set()
    for ev in events:
        if ev[1] == 'F' and ev[3] in undone_tids:
            out.update(ev[4])
    return out


def check_read_current(w, log):
    """C03: a committed transaction that declared a dependency on x being
    current was committed while x still had that revision."""
    revs = revisions_by_oid(log)
    tok_tid = {}
    for oid, lst in revs.items():
        for tid, tok in lst:
            tok_tid.setdefault((oid, dbh.leaf_token(tok)), tid)
    committed = {(ci, tn): written for (ci, tn, written, inv, ret)
                 in w.commits_ok}
    n = 0
    for ev in w.rec.events:
        if ev[1] != 'RC':
            continue
        _, _, ci, tn, oid, serial = ev
        written = committed.get((ci, tn))
        if not written:
            continue
        ctid = tok_tid.get((written[0][0], written[0][1]))
        if ctid is None:
            continue
        if any(o == oid for o, t, b in written):
            continue
        n += 1
        # revision of oid current just before ctid
        cur = None
        for tid, tok in revs.get(oid, []):
            if tid < ctid:
                cur = tid
        if cur != serial:
            w.flag('readcurrent-ignored', 'client %d txn %d committed at %r '
                   'although %r, declared current at serial %r, had been '
                   'changed at %r' % (ci, tn, ctid, oid, serial, cur))
    w.stats['readcurrent_checked'] = n


def sched_config(r):
    strat = r.choice(('random', 'random', 'sticky', 'sticky', 'pct'))
    return {'strategy': strat, 'p_stay': r.choice((0.5, 0.8, 0.95)),
            'pct_depth': r.choice((1, 2, 3, 5)),
            'est_steps': r.choice((200, 600, 1500))}
