"""C06, DB-level arm: DB.undo / undoMultiple through the MVCC adapter with
a second connection holding cached copies."""

import random

from ZODB.POSException import ConflictError
from ZODB.POSException import UndoError

from .. import ctx
from .. import dbh
from .. import objs
from ..hist import check_undo_records
from ..hist import model_resolver
from ..model import UNCREATE
from ..model import Log
from ..model import UndoRefused
from ..model import undo_id


def gen(seed, tier):
    r = random.Random(ctx.subseed(seed, 'db'))
    ncell = r.choice((1, 2, 3, 4))
    n = r.randint(4, 14)
    ops = []
    for _ in range(n):
        x = r.random()
        if x < 0.40:
            ops.append(['w', r.choice('AB'),
                        [r.randrange(ncell)
                         for _ in range(r.choice((1, 1, 2)))]])
        elif x < 0.75:
            k = r.choice((1, 1, 1, 2))
            ops.append(['undo', [-1 - r.randrange(4) for _ in range(k)]])
        elif x < 0.85:
            ops.append(['observe'])
        elif x < 0.90:
            ops.append(['minimize', r.choice('AB')])
        elif x < 0.95:
            ops.append(['reopen', r.choice('AB')])
        else:
            ops.append(['new', 'A'])
    return {'arm': 'db', 'ops': ops, 'ncell': ncell,
            'classes': [r.choice(('Cell', 'Merge', 'Merge', 'Boom'))
                        for _ in range(ncell)],
            'cache_size': r.choice((0, 1, 400)),
            'bufsize': r.choice((64, 8192, 65536)), 'tick': 0.37,
            'tier': tier}


def run(case):
    sim = ctx.activate(ctx.Sim(case['seed'], bufsize=case['bufsize'],
                               clock={'tick': case['tick']}))
    db = dbh.make_db(sim, 'file', cache_size=case['cache_size'])
    st = db.storage
    log = Log()
    viol = []
    outcomes = []
    commit_log = []

    def flag(o, x):
        viol.append((o, x))

    A = dbh.Client(db, 'A')
    B = dbh.Client(db, 'B')
    A.open()
    B.open()
    counter = [0]

    def tok():
        counter[0] += 1
        return counter[0]

    def adopt():
        n = dbh.adopt(log, st)
        for t in log.txns[len(log.txns) - n:]:
            commit_log.append(t.tid)
        return n

    try:
        root = A.root()
        for i, cn in enumerate(case['classes']):
            c = objs.CLASSES[cn](tok())
            root['c%d' % i] = c
        A.commit()
        adopt()
        ncell = [case['ncell']]

        def cells(cl):
            r = cl.root()
            return [r.get('c%d' % i) for i in range(ncell[0])]

        def expected_tokens():
            out = []
            # the committed root decides which cells exist
            A.begin()
            for c in cells(A):
                if c is None:
                    out.append(None)
                    continue
                cur = log.current(c._p_oid)
                if cur is None or cur[1].kind == UNCREATE:
                    out.append(None)
                else:
                    out.append(dbh.token_of(cur[1].data))
            return out

        def view(cl):
            """tokens as the client sees them right now (no boundary)."""
            out = []
            for c in cells(cl):
                try:
                    out.append(dbh.hashable(c.token)
                               if c is not None else None)
                except KeyError:
                    out.append(None)
                except ConflictError:
                    out.append('conflict')
            return out

        B.begin()
        b_view = view(B)
        for op in case['ops']:
            kind = op[0]
            if kind == 'w':
                cl = A if op[1] == 'A' else B
                cl.begin()
                try:
                    cs = cells(cl)
                    for k in op[2]:
                        c = cs[k % len(cs)]
                        if c is None:
                            continue
                        t = tok()
                        c.token = t
                        c.n = c.n + 1
                        c.log = c.log + [t]
                    cl.commit()
                    outcomes.append('commit')
                except ConflictError:
                    cl.abort()
                    outcomes.append('conflict')
                except KeyError:
                    cl.abort()
                    outcomes.append('gone')
                adopt()
                if cl is B:
                    b_view = view(B)
            elif kind == 'new':
                A.begin()
                c = objs.Merge(tok())
                A.root()['c%d' % ncell[0]] = c
                A.commit()
                ncell[0] += 1
                adopt()
                outcomes.append('new')
                b_view = b_view + [None]
            elif kind == 'undo':
                if not commit_log:
                    continue
                tids = []
                for k in op[1]:
                    tid = commit_log[k % len(commit_log)]
                    if tid not in tids:
                        tids.append(tid)
                if any(len({r.oid for r in log.txn(t).recs})
                       != len(log.txn(t).recs) for t in tids):
                    outcomes.append('skip')
                    continue
                try:
                    plan = log.plan_undo(tids, model_resolver)
                    refused = None
                except UndoRefused as e:
                    plan, refused = None, e
                if plan is not None and any(p[1] == UNCREATE for p in plan):
                    # would un-create the root or a cell: fine for the
                    # storage, but the harness' object graph would dangle
                    outcomes.append('skip')
                    continue
                # B is in the middle of a transaction and has read the cells
                before_b = view(B)
                A.begin()
                err = None
                try:
                    if len(tids) == 1:
                        db.undo(undo_id(tids[0]), A.tm.get())
                    else:
                        db.undoMultiple([undo_id(t) for t in tids],
                                        A.tm.get())
                    A.commit()
                except UndoError as e:
                    err = e
                    A.abort()
                if err is not None:
                    outcomes.append('undo-refused')
                    if plan is not None and not any('either' in p[6]
                                                    for p in plan):
                        flag('undo-outcome', 'DB.undo of %r refused (%s), '
                             'model says it must succeed'
                             % (tids, str(err)[:60]))
                    if dbh.adopt(log, st):
                        flag('undo-refusal-changed', 'a refused undo '
                             'committed a transaction')
                else:
                    outcomes.append('undo')
                    n = adopt()
                    if plan is None:
                        if 'open' not in str(refused):
                            flag('undo-outcome', 'DB.undo of %r accepted, '
                                 'model says refuse' % (tids,))
                    elif n != 1:
                        flag('undo-records', 'undo committed %d '
                             'transactions' % n)
                    else:
                        t = log.txns[-1]
                        check_undo_records(
                            plan, [(r.oid, r.data) for r in t.recs], flag)
                # not before the boundary ...
                if view(B) != before_b:
                    flag('undo-visible-early', 'connection B saw the undo '
                         'before its next transaction boundary')
                # ... and at the boundary
                B.begin()
                b_view = view(B)
                want = expected_tokens()
                if b_view != want:
                    flag('undo-not-visible', 'after its boundary connection '
                         'B reads %r, committed state is %r'
                         % (b_view, want))
                A.begin()
                if view(A) != want:
                    flag('undo-not-visible', 'the undoing connection reads '
                         '%r, committed state is %r' % (view(A), want))
            elif kind == 'observe':
                B.begin()
                b_view = view(B)
                want = expected_tokens()
                if b_view != want:
                    flag('stale-read', 'connection B reads %r, committed '
                         'state is %r' % (b_view, want))
                outcomes.append('observe')
            elif kind == 'minimize':
                (A if op[1] == 'A' else B).conn.cacheMinimize()
            elif kind == 'reopen':
                cl = A if op[1] == 'A' else B
                cl.abort()
                cl.close()
                cl.open()
                if cl is B:
                    b_view = view(B)
        A.abort()
        B.abort()
    except Exception as e:      # noqa: B902
        import traceback
        flag('db-arm-raises', '%s: %s | %s' % (
            type(e).__name__, str(e)[:80],
            traceback.format_exc().strip().splitlines()[-3][:100]))
    finally:
        try:
            A.abort()
            B.abort()
            db.close()
        except Exception:       # noqa: B902
            pass
    nundo = sum(1 for o in outcomes if o.startswith('undo'))
    stats = {'sim_time_s': sim.clock.elapsed(), 'arm:db': 1,
             'commits': len(log.txns)}
    for o in outcomes:
        stats['dboutcome:' + o] = stats.get('dboutcome:' + o, 0) + 1
    return {
        'violations': [{'oracle': o, 'detail': x} for o, x in viol[:20]],
        'stats': stats,
        'keys': ['d|' + ','.join(outcomes)] if nundo else [],
        'evals': 1,
        'sample': {'arm': 'db', 'ops': case['ops'], 'outcomes': outcomes},
        'digest': sim.digest(outcomes, viol),
    }
