"""Fan-out over seeds, evidence, known findings, replay files."""

import collections
import concurrent.futures
import faulthandler
import gc
import hashlib
import importlib
import json
import multiprocessing
import os
import re
import subprocess
import sys
import time
import traceback

from . import ctx
from . import seams

ROOT = os.path.dirname(os.path.dirname(os.path.abspath(__file__)))
OUT = os.environ.get('ZSIM_OUT_DIR') or os.path.join(ROOT, 'out')
EVIDENCE = os.environ.get('ZSIM_EVIDENCE_DIR') or os.path.join(ROOT, 'evidence')
KNOWN = os.path.join(ROOT, 'known_findings.json')

CHECKS = ['C01', 'C02', 'C03', 'C04', 'C05', 'C06', 'C07', 'C08', 'C09',
          'C10', 'C11', 'C12', 'C13', 'C15', 'C16', 'C17', 'C18', 'C20']

COMPONENTS = {
    'real': ['ZODB.FileStorage.FileStorage', 'ZODB.FileStorage.format',
             'ZODB.FileStorage.fspack', 'ZODB.fsIndex', 'ZODB.BaseStorage',
             'ZODB.MappingStorage', 'ZODB.DemoStorage', 'ZODB.blob',
             'ZODB.mvccadapter', 'ZODB.Connection', 'ZODB.DB',
             'ZODB.ConflictResolution', 'ZODB.serialize', 'ZODB.fsrecover',
             'ZODB.scripts.repozo', 'transaction', 'persistent', 'BTrees',
             'zodbpickle', 'CPython io.Buffered*'],
    'stub': ['raw file layer and directory (zsim.simfs)',
             'os.fsync/rename/remove/... (zsim.simfs.OsProxy)',
             'zc.lockfile.LockFile (zsim.simfs.SimLockFile)',
             'threading.Lock/RLock/Condition as seen by ZODB (zsim.sched)',
             'time (zsim.simclock)', 'random in DemoStorage'],
}


def load_check(cid):
    return importlib.import_module('zsim.checks.' + cid.lower())


def run_seed(verif_seed, cid, index):
    return ctx.subseed(verif_seed, cid, index)


RUN_LIMIT = float(os.environ.get('ZSIM_RUN_LIMIT', '150'))


class RunTimeout(BaseException):
    """One run used more than RUN_LIMIT CPU seconds (normal runs take
    milliseconds to a few seconds): the code under test does not
    terminate on this case."""


def _zodb_frames(frame, n=4):
    out = []
    while frame is not None:
        fn = frame.f_code.co_filename
        if '/ZODB/' in fn or '/zsim/' in fn:
            out.append('%s:%d %s' % (fn.split('/src/')[-1].split(
                '/verif/')[-1], frame.f_lineno, frame.f_code.co_name))
        frame = frame.f_back
    return out[:n]


def _on_alarm(signum, frame):
    import threading
    where = {'main': _zodb_frames(frame)}
    for tid, fr in sys._current_frames().items():
        if tid != threading.main_thread().ident:
            fs = _zodb_frames(fr)
            if fs and 'sched.py' not in fs[0]:
                where['thread-%d' % (len(where))] = fs
    raise RunTimeout(json.dumps(where))


def _stop_stray_threads():
    """After a run that did not terminate: unwind task threads that are
    still executing (parked ones stay parked, harmlessly)."""
    import ctypes
    import threading
    for th in threading.enumerate():
        if th is not threading.main_thread() and th.name.startswith('zsim-'):
            ctypes.pythonapi.PyThreadState_SetAsyncExc(
                ctypes.c_ulong(th.ident), ctypes.py_object(ctx.SimAbort))


def run_one(mod, case):
    """Run one case in this process with full per-run hygiene.  Returns the
    result dict (never raises for property violations).  A run that does
    not finish within RUN_LIMIT CPU seconds is a violation
    ('does-not-terminate'), not a harness error."""
    import signal
    # CPU time of this process, not wall time: a loaded machine must not
    # turn a slow run into a verdict (a run that loops burns CPU; one that
    # blocks is the scheduler's deadlock detection's business)
    old = signal.signal(signal.SIGPROF, _on_alarm)
    signal.setitimer(signal.ITIMER_PROF, RUN_LIMIT)
    try:
        return _run_one(mod, case)
    except RunTimeout as e:
        ctx.deactivate()
        _stop_stray_threads()
        return {'violations': [{
            'oracle': 'does-not-terminate',
            'detail': 'the run did not finish within %d seconds of CPU time '
                      '(runs of this check take milliseconds to seconds); '
                      'executing: %s' % (RUN_LIMIT, str(e)[:600])}],
            'stats': {'runs_timed_out': 1}, 'keys': [], 'evals': 1,
            'sample': None, 'digest': 'timeout'}
    finally:
        signal.setitimer(signal.ITIMER_PROF, 0)
        signal.signal(signal.SIGPROF, old)


def _run_one(mod, case):
    seams.install()
    seams.reset_process_globals()
    from . import objs
    objs.reset()
    gc.disable()
    try:
        res = mod.run(case)
    finally:
        ctx.deactivate()
        gc.enable()
    return res


def _worker(args):
    cid, verif_seed, tier, indices, deadline = args
    mod = load_check(cid)
    faulthandler.enable()
    agg = {'runs': 0, 'evals': 0, 'stats': collections.Counter(),
           'keys': set(), 'viol': [], 'errors': [], 'samples': [],
           'skipped': 0}
    for n, i in enumerate(indices):
        if time.time() > deadline:
            agg['skipped'] += len(indices) - n
            break
        seed = run_seed(verif_seed, cid, i)
        faulthandler.dump_traceback_later(1800, exit=True)
        try:
            case = mod.gen(seed, tier)
            case['seed'] = seed
            case['check'] = cid
            res = run_one(mod, case)
        except BaseException:      # noqa: B902 -- harness failure, reported
            agg['errors'].append({'index': i, 'seed': seed,
                                  'tb': traceback.format_exc()[-3000:]})
            continue
        finally:
            faulthandler.cancel_dump_traceback_later()
        agg['runs'] += 1
        agg['evals'] += res.get('evals', 1)
        agg['stats'].update(res.get('stats', {}))
        for k in res.get('keys', ()):
            agg['keys'].add(k)
        if res.get('violations'):
            if len(agg['viol']) < 40:
                agg['viol'].append({'case': case,
                                    'violations': res['violations']})
            agg['stats']['runs_with_violation'] += 1
        if len(agg['samples']) < 1 and res.get('sample') is not None:
            agg['samples'].append(res['sample'])
        if n % 50 == 49:
            gc.collect()
    agg['stats'] = dict(agg['stats'])
    agg['keys'] = list(agg['keys'])
    return agg


# Counters of the checks that count injected faults, crashes, damages,
# clock steps and schedule decisions: reported under faults_fired as well
# (the counters themselves stay where they are).
FAULT_COUNTERS = {
    'cuts': 'crash:image-cut-or-torn-write',
    'power_loss_images': 'crash:power-loss-image',
    'zero_tail_images': 'crash:zero-tail-image',
    'torn_index_images': 'crash:torn-index-image',
    'crash_in_recovery_images': 'crash:second-crash-in-recovery',
    'crash_cuts': 'crash:image-cut-inside-pack',
    'pack_failed': 'io:raw-op-of-a-pack-failed',
    'recoveries': 'damage:damaged-file-recovered',
    'switches': 'sched:context-switches',
    'fine_mode_runs': 'sched:runs-with-line-level-pre-emption',
    'reopened_with_clock_behind': 'clock:reopen-with-clock-behind',
    'outcome:clock': 'clock:stall-step-back-or-jump',
    'op:backup-killed': 'kill:backup-process-killed',
    'op:backup-gave-up-after-pack': 'race:pack-between-scan-and-copy',
    'op:spfail': 'fault:savepoint-fails-half-way',
    'op:consume-failed': 'io:blob-consume-failed',
    'failed_blob_txns': 'fault:blob-transaction-failed',
    'ro-open-absent': 'fault:data-file-absent',
}
FAULT_PREFIXES = {
    'variant:': 'fault-point:',         # C05: abort / failure placements
    'op:fail:': 'failed-commit:',       # C11/C12
    'damage:': 'repo-damage:',          # C18
    'open:cut': 'index:cut',            # C09 index variants
    'open:stale': 'index:stale',
    'open:junk': 'index:junk',
}


def faults_of(stats):
    out = {k[6:]: n for k, n in stats.items() if k.startswith('fault:')}
    for k, n in stats.items():
        if k in FAULT_COUNTERS:
            out[FAULT_COUNTERS[k]] = n
            continue
        for pre, new in FAULT_PREFIXES.items():
            if k.startswith(pre):
                out[new + k[len(pre):]] = out.get(new + k[len(pre):], 0) + n
                break
    return out


def load_known():
    try:
        with open(KNOWN) as f:
            return json.load(f).get('findings', [])
    except FileNotFoundError:
        return []


def match_known(cid, viol, case, known):
    for k in known:
        if k.get('status') != 'known' or k.get('property') != cid:
            continue
        m = k.get('match', {})
        if m.get('oracle') and m['oracle'] != viol['oracle']:
            continue
        if m.get('oracle_re') and not re.search(m['oracle_re'],
                                                viol['oracle']):
            continue
        if m.get('detail_re') and not re.search(m['detail_re'],
                                                viol['detail']):
            continue
        ok = True
        for ck, cv in (m.get('case') or {}).items():
            if case.get(ck) != cv:
                ok = False
        if ok:
            return k
    return None


def sig_of(v):
    """Violation class: oracle plus the detail with volatile parts removed."""
    return v['oracle']


def write_replay(cid, case, violation, tag=''):
    os.makedirs(os.path.join(OUT, 'replays'), exist_ok=True)
    body = {'check': cid, 'case': case, 'expect': violation}
    s = json.dumps(body, sort_keys=True, default=_json_default)
    h = hashlib.blake2b(s.encode(), digest_size=6).hexdigest()
    path = os.path.join(OUT, 'replays', '%s-%s%s.json' % (cid, h, tag))
    with open(path, 'w') as f:
        f.write(json.dumps(body, indent=1, sort_keys=True,
                           default=_json_default))
    return path


def _json_default(o):
    if isinstance(o, bytes):
        return {'__bytes__': o.hex()}
    if isinstance(o, (set, frozenset)):
        return sorted(o)
    raise TypeError(type(o))


def _json_hook(d):
    if '__bytes__' in d and len(d) == 1:
        return bytes.fromhex(d['__bytes__'])
    return d


def load_replay(path):
    with open(path) as f:
        return json.load(f, object_hook=_json_hook)


def replay(path, quiet=False):
    """Re-run a replay file in this process.  Exit status semantics:
    1 = the recorded violation class reproduced, 0 = no violation,
    3 = a different violation."""
    body = load_replay(path)
    cid = body['check']
    seams.install()     # (before the check module imports ZODB)
    mod = load_check(cid)
    res = run_one(mod, body['case'])
    want = body.get('expect')
    got = res.get('violations', [])
    if not quiet:
        for v in got:
            print('violation: %s: %s' % (v['oracle'], v['detail']))
        print('digest: %s' % res.get('digest'))
    if not got:
        return 0
    if want is None or any(v['oracle'] == want['oracle'] for v in got):
        if not quiet:
            print('VIOLATION property=%s replay=%s' % (cid, path))
        return 1
    return 3


def confirm_in_fresh_process(path):
    """Replay in a fresh interpreter; True if it reproduces."""
    cmd = [os.path.join(ROOT, 'bin', 'zsim'), 'replay', path, '--quiet']
    try:
        p = subprocess.run(cmd, stdout=subprocess.PIPE,
                           stderr=subprocess.STDOUT, timeout=600)
    except subprocess.TimeoutExpired:
        return False
    return p.returncode == 1


def check(cid, tier='quick', verif_seed=0, runs=None, workers=None,
          wall=None, do_shrink=True):
    t0 = time.time()
    seams.install()
    mod = load_check(cid)
    budget = dict(mod.BUDGET[tier])
    if runs is not None:
        budget['runs'] = runs
    if wall is not None:
        budget['wall'] = wall
    nruns = budget['runs']
    workers = workers or int(os.environ.get('ZSIM_WORKERS', 0)) or \
        min(16, os.cpu_count() or 1)
    deadline = t0 + budget.get('wall', 3600)
    chunk = max(1, min(budget.get('chunk', 25), (nruns + workers - 1)
                       // workers))
    jobs = []
    for start in range(0, nruns, chunk):
        idx = list(range(start, min(nruns, start + chunk)))
        jobs.append((cid, verif_seed, tier, idx, deadline))
    total = {'runs': 0, 'evals': 0, 'stats': collections.Counter(),
             'keys': set(), 'viol': [], 'errors': [], 'samples': [],
             'skipped': 0}
    mpctx = multiprocessing.get_context('fork')
    broken = None
    with concurrent.futures.ProcessPoolExecutor(
            max_workers=workers, mp_context=mpctx) as ex:
        futs = [ex.submit(_worker, j) for j in jobs]
        for f in futs:
            try:
                agg = f.result(timeout=max(60, deadline - time.time() + 900))
            except Exception as e:      # noqa: B902
                broken = 'worker failed: %r' % (e,)
                break
            total['runs'] += agg['runs']
            total['evals'] += agg['evals']
            total['stats'].update(agg['stats'])
            total['keys'].update(agg['keys'])
            total['viol'].extend(agg['viol'])
            total['errors'].extend(agg['errors'])
            total['skipped'] += agg['skipped']
            if len(total['samples']) < 3:
                total['samples'].extend(agg['samples'])

    known = load_known()
    # distinct violation classes
    classes = collections.OrderedDict()
    for item in total['viol']:
        for v in item['violations']:
            s = sig_of(v)
            if s not in classes:
                classes[s] = (item['case'], v)
    lines = []
    exit_code = 0
    n_unknown = 0
    known_seen = []
    harness_errors = list(total['errors'])
    if broken:
        harness_errors.append({'tb': broken})
    shrink_deadline = time.time() + budget.get('shrink_wall', 120)
    for s, (case, v) in classes.items():
        k = match_known(cid, v, case, known)
        if k is not None:
            if k['key'] not in [x['key'] for x in known_seen]:
                known_seen.append(k)
            continue
        small = case
        if do_shrink and time.time() < shrink_deadline:
            from . import shrink
            try:
                small = shrink.shrink(mod, case, v,
                                      min(shrink_deadline,
                                          time.time() + 60))
            except Exception:           # noqa: B902
                small = case
        path = write_replay(cid, small, v)
        if confirm_in_fresh_process(path):
            n_unknown += 1
            lines.append('VIOLATION property=%s replay=%s' % (cid, path))
            lines.append('  %s: %s' % (v['oracle'], v['detail'][:300]))
            exit_code = 1
        else:
            # try the un-shrunk case before giving up
            path2 = write_replay(cid, case, v, tag='-full')
            if confirm_in_fresh_process(path2):
                n_unknown += 1
                lines.append('VIOLATION property=%s replay=%s' % (cid, path2))
                lines.append('  %s: %s' % (v['oracle'], v['detail'][:300]))
                exit_code = 1
            else:
                harness_errors.append({'tb': 'violation did not reproduce '
                                       'in a fresh process: %s %s'
                                       % (s, path2)})
    for k in known_seen:
        lines.append('KNOWN-FINDING: property=%s %s' % (cid, k['what_fails']))
    if harness_errors and exit_code == 0:
        exit_code = 2
    wall_s = time.time() - t0
    stats = dict(total['stats'])
    ev = {
        'property_id': cid,
        'tier': tier,
        'seed': verif_seed,
        'level': mod.LEVEL,
        'coverage': {
            'evaluations': total['evals'],
            'distinct_nontrivial': len(total['keys']),
            'rule': mod.RULE,
            'samples': total['samples'][:3],
            'runs': total['runs'],
            'runs_planned': nruns,
            'runs_skipped_by_wall_cap': total['skipped'],
            'runs_per_hour': int(total['runs'] / max(wall_s, 1e-6) * 3600),
            'evaluations_per_hour': int(total['evals'] / max(wall_s, 1e-6)
                                        * 3600),
            'sim_time_s': stats.pop('sim_time_s', 0),
            'faults_fired': faults_of(stats),
            'probes': {k[6:]: n for k, n in stats.items()
                       if k.startswith('probe:')},
            'counters': {k: n for k, n in stats.items()
                         if not k.startswith(('fault:', 'probe:'))},
            'components': COMPONENTS,
            'known_findings_seen': [k['key'] for k in known_seen],
            'harness_errors': len(harness_errors),
            'workers': workers,
        },
        'assumptions': list(getattr(mod, 'ASSUMPTIONS', [])),
        'wall_s': round(wall_s, 2),
        'violations': n_unknown,
    }
    os.makedirs(EVIDENCE, exist_ok=True)
    # keep a summary of the last run of the *other* tier in the file (the
    # file itself always describes the run that wrote it)
    try:
        with open(os.path.join(EVIDENCE, cid + '.json')) as f:
            prev = json.load(f)
        if prev.get('tier') != tier:
            pc = prev.get('coverage', {})
            other = {k: prev.get(k) for k in ('tier', 'seed', 'wall_s',
                                              'violations')}
            other.update({k: pc.get(k) for k in (
                'runs', 'evaluations', 'distinct_nontrivial',
                'runs_skipped_by_wall_cap', 'sim_time_s', 'faults_fired',
                'harness_errors', 'known_findings_seen')})
        else:
            other = prev.get('coverage', {}).get('other_tier_last_run')
        if other:
            ev['coverage']['other_tier_last_run'] = other
    except (OSError, ValueError):
        pass
    with open(os.path.join(EVIDENCE, cid + '.json'), 'w') as f:
        json.dump(ev, f, indent=1, sort_keys=True, default=_json_default)
        f.write('\n')
    print('%s %s: %d runs, %d evaluations, %d distinct non-trivial, '
          '%.1fs, %d violation class(es), %d known, %d harness error(s)'
          % (cid, tier, total['runs'], total['evals'], len(total['keys']),
             wall_s, n_unknown, len(known_seen), len(harness_errors)))
    for ln in lines:
        print(ln)
    for e in harness_errors[:3]:
        print('HARNESS-ERROR %s' % (e.get('tb', '')[-1500:],))
    sys.stdout.flush()
    return exit_code
