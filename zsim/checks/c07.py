"""C07 -- packing never changes what is observable at or after the pack time
(DESIGN §6 C07).  History sampled by seed; every candidate pack time of the
history is tried on its own replay."""

import random

from .. import ctx
from ..hist import Driver
from ..hist import Violation
from ZODB.utils import p64
from ZODB.utils import u64

ID = 'C07'
LEVEL = 'exploration'
RULE = ('one run = one seeded object-graph history (link, unlink, re-link, '
        'modify, garbage, cycles, undo incl. back-pointers across the pack '
        'time and un-creation, deleteObject) on FileStorage (gc on/off, '
        'keep_old on/off) or MappingStorage, optionally after a pack of '
        'the still empty storage, with alternating write/undo chains and '
        'multi-undo blocks, followed by a tail of further '
        'transactions/undos; the history is replayed once per candidate pack '
        'time (before all, at / just before / just after / between each '
        'transaction, after all), packed there, compared with the model '
        'before the pack and with an unpacked twin after the tail, packed '
        'again and reopened; one evaluation = one (history, pack time); '
        'non-trivial = the pack removed something; distinct = (kind, gc, '
        'history hash, pack time)')
BUDGET = {'quick': {'runs': 1000, 'wall': 300, 'chunk': 5},
          'thorough': {'runs': 30000, 'wall': 2400, 'chunk': 10}}
ASSUMPTIONS = [
    'a pack that raises is not a C07 violation provided the storage is '
    'unchanged (C08 demands "usable and unchanged"); successful packs are '
    'counted',
    'references are those the generator put into each record',
]
SHRINK = ['ops', 'tail']
PATH = '/sim/Data.fs'


def gen_graph_history(r, n, kind):
    """Well-formed graph histories: a root first, references only to
    objects that exist."""
    ops = []
    created = [0]
    nxt = [1]

    def new():
        o = nxt[0]
        nxt[0] += 1
        return o

    def rec(o, refs, cls='Cell', size=None):
        d = {'o': o, 'cls': cls}
        if refs:
            d['refs'] = list(refs)
        if size:
            d['size'] = size
        return d

    refs_of = {0: []}
    ops.append({'op': 'txn', 'recs': [rec(0, [])]})
    for _ in range(n):
        x = r.random()
        if x < 0.10 and kind == 'file' and len(created) > 1:
            # alternate writes and undos of one object: the current record
            # becomes an undo record whose back pointer leads to another
            # undo record (chains of back pointers), and what the restored
            # state references is referenced from nowhere else
            o = r.choice(created)
            keep = list(refs_of[o])
            for _ in range(r.choice((1, 2, 2, 3))):
                ops.append({'op': 'txn', 'recs': [rec(o, [])]})
                ops.append({'op': 'undo', 'targets': [-1]})
            refs_of[o] = keep
            continue
        if x < 0.30 and nxt[0] < 11:
            # create an object and link it from an existing one
            o = new()
            parent = r.choice(created)
            refs_of[o] = []
            refs_of[parent] = refs_of[parent] + [o]
            created.append(o)
            ops.append({'op': 'txn', 'recs': [
                rec(parent, refs_of[parent]),
                rec(o, [], r.choice(('Cell', 'Cell', 'Merge')),
                    r.choice((0, 0, 30, 300)))]})
        elif x < 0.42 and nxt[0] < 11:
            # garbage: created but never linked
            o = new()
            refs_of[o] = []
            ops.append({'op': 'txn', 'recs': [rec(o, [])]})
            if r.random() < 0.5:
                created.append(o)       # may get linked later
        elif x < 0.55:
            # unlink something
            parent = r.choice(created)
            if refs_of[parent]:
                k = r.randrange(len(refs_of[parent]))
                refs_of[parent] = (refs_of[parent][:k]
                                   + refs_of[parent][k + 1:])
            ops.append({'op': 'txn', 'recs': [rec(parent, refs_of[parent])]})
        elif x < 0.68:
            # (re-)link an existing object, possibly making a cycle
            parent = r.choice(created)
            child = r.choice(created)
            refs_of[parent] = refs_of[parent] + [child]
            ops.append({'op': 'txn', 'recs': [rec(parent, refs_of[parent])]})
        elif x < 0.78:
            # plain modification
            o = r.choice(created)
            ops.append({'op': 'txn', 'recs': [rec(o, refs_of[o])]})
        elif x < 0.93 and kind == 'file':
            ops.append({'op': 'undo',
                        'targets': [-1 - r.randrange(4)
                                    for _ in range(r.choice((1, 1, 2)))]})
        elif x < 0.95 and kind == 'file' and len(created) > 1:
            ops.append({'op': 'delete', 'o': r.choice(created[1:])})
        elif x < 0.97:
            ops.append({'op': 'reopen'})
        else:
            ops.append({'op': 'clock', 'mode': r.choice(('stall', 'jump')),
                        'n': 3, 's': 3600})
    return ops


def gen(seed, tier):
    r = random.Random(seed)
    kind = r.choice(('file', 'file', 'file', 'mapping'))
    n = r.randint(3, 10) if tier == 'quick' else r.randint(3, 15)
    ops = gen_graph_history(r, n, kind)
    r2 = random.Random(ctx.subseed(seed, 'tail'))
    tail = gen_graph_history(r2, r.randint(0, 4), kind)[1:]
    # tail operates on the same oid indices (objects 0..), keep it simple:
    opts = {}
    if kind == 'file':
        opts = {'pack_gc': r.random() < 0.7,
                'pack_keep_old': r.random() < 0.5}
    return {'kind': kind, 'opts': opts, 'ops': ops, 'tail': tail,
            'bufsize': r.choice((64, 512, 8192, 65536)),
            'tick': r.choice((0.37, 0.37, 1e-7, 45.0)),
            'second': r.choice(('same', 'earlier', 'later', 'none')),
            # a pack of the still empty storage before anything else
            'prepack': r.random() < 0.12,
            'tier': tier}


def candidates(ntx):
    out = [('before_all', 0), ('after_all', 0)]
    for i in range(ntx):
        out.append(('at', i))
        out.append(('between', i))
    for i in range(0, ntx, 2):
        out.append(('just_before', i))
        out.append(('just_after', i))
    return out


def uncreate_class(info):
    """Names the one known way a repeated pack is not a no-op: at the pack
    time the current record of some object is an un-creation written by an
    undo (a back pointer that resolves to nothing): the first pack keeps it
    as a plain un-creation record, the second drops that."""
    from ..model import UNCREATE
    from ZODB.utils import p64, u64
    pre = info['pre']
    bound = p64(u64(info['stop']) + 1)
    for oid in pre.oids():
        sb = pre.state_before(oid, bound)
        if sb is not None and sb[1].kind == UNCREATE:
            t = pre.txn(sb[0])
            if t is not None and t.kind == 'undo':
                return '/undo-written-uncreate-current-at-T'
    return ''


def run_history(case, pack_op, label, stats, keys):
    """Replay the history, pack at `pack_op` (None = unpacked twin)."""
    sim = ctx.activate(ctx.Sim(case['seed'], bufsize=case['bufsize'],
                               clock={'tick': case['tick']}))
    d = Driver(sim, case['kind'], path=PATH,
               opts=dict(case['opts'], protect_root=True))
    info = None
    try:
        if case.get('prepack'):
            try:
                d.st.pack(sim.clock.now + 1, __import__(
                    'ZODB.serialize', fromlist=['x']).referencesf)
            except Exception as e:      # noqa: B902
                d.flag('pack-of-empty-raises', '%s: %s'
                       % (type(e).__name__, str(e)[:80]))
        for op in case['ops']:
            d.execute(op)
        ntx = len(d.model.txns)
        if pack_op is not None:
            out = d.execute(pack_op)
            info = d.last_pack
            if out.startswith('pack-raises') and 'lready packing' in \
                    str(info.get('raised')):
                d.flag('pack-refused-alone', 'pack refused (%s) although '
                       'no other pack is running' % info['raised'])
            stats['pack:' + out.split(':')[0]] = \
                stats.get('pack:' + out.split(':')[0], 0) + 1
            if out == 'pack':
                if info['changed']:
                    stats['packs_that_removed'] = \
                        stats.get('packs_that_removed', 0) + 1
                    keys.append('%s|%s|%x|%s' % (
                        case['kind'], info['gc'],
                        ctx.subseed(case['seed'], 'h') & 0xffffff, label))
                d.full_sweep('after pack: ')
                d.check_file('after pack: ')
                # packing again to the same time changes nothing
                if case['kind'] == 'file':
                    before = sim.fs.read_bytes(PATH)
                    out2 = d.execute({'op': 'pack', 't': info['t'],
                                      'gc': pack_op.get('gc')})
                    if sim.fs.read_bytes(PATH) != before:
                        d.flag('repack-changes' + uncreate_class(info),
                               'packing again to the same '
                               'time changed the data file (%s)' % out2)
                else:
                    m0 = d.model
                    out2 = d.execute({'op': 'pack', 't': info['t'],
                                      'gc': pack_op.get('gc')})
                    if [(t.tid, len(t.recs)) for t in d.model.txns] != \
                            [(t.tid, len(t.recs)) for t in m0.txns]:
                        d.flag('repack-changes', 'packing again to the same '
                               'time changed the storage')
                if d.caps.get('reopen'):
                    d.execute({'op': 'reopen'})
        for op in case['tail']:
            d.execute(op)
        if pack_op is not None and case.get('second', 'none') != 'none' \
                and info is not None and info['raised'] is None:
            sec = {'op': 'pack', 't': info['t']}
            if case['second'] == 'earlier':
                sec = {'op': 'pack', 't': info['t'] - 5.0}
            elif case['second'] == 'later':
                sec = {'op': 'pack', 'where': 'after_all'}
            sec['gc'] = pack_op.get('gc')
            m0 = d.model
            before = sim.fs.read_bytes(PATH) if case['kind'] == 'file' \
                else None
            out3 = d.execute(sec)
            stats['second:' + out3.split(':')[0]] = \
                stats.get('second:' + out3.split(':')[0], 0) + 1
            if case['second'] in ('same', 'earlier') and not case['tail'] \
                    and case['kind'] == 'file' \
                    and sim.fs.read_bytes(PATH) != before:
                d.flag('repack-changes', 'packing again to the same or an '
                       'earlier time changed the data file')
        d.full_sweep('end: ')
        d.check_file('end: ')
        if d.caps.get('reopen'):
            d.execute({'op': 'reopen', 'drop_index': True})
    except Violation:
        pass
    finally:
        try:
            d.close()
        except Exception:       # noqa: B902
            pass
    return d, sim, info


def run(case):
    stats = {}
    keys = []
    viol = []
    twin, sim0, _ = run_history(case, None, 'twin', stats, keys)
    viol.extend(('twin:' + o, x) for o, x in twin.viol)
    ntx = sum(1 for o in twin.outcomes[:len(case['ops'])] if o == 'commit')
    evals = 0
    samples = []
    sim_time = sim0.clock.elapsed()
    if not viol:
        gcs = [None]
        for where, i in candidates(ntx):
            pack_op = {'op': 'pack', 'where': where, 'at': i}
            label = '%s%d' % (where, i)
            d, sim, info = run_history(case, pack_op, label, stats, keys)
            evals += 1
            for o, x in d.viol:
                viol.append((o, '[pack %s] %s' % (label, x)))
            # differential: final states of packed and unpacked twin agree
            # on every object the pack had to keep
            ta = [o for o in d.outcomes[len(case['ops']):]
                  if not o.startswith(('pack', 'reopen'))]
            tb = [o for o in twin.outcomes[len(case['ops']):]
                  if not o.startswith(('pack', 'reopen'))]
            if ta != tb or len(set(d.commit_log)) != len(d.commit_log):
                # e.g. the tail undoes a transaction the pack has packed
                # (refused by design): final states legitimately differ;
                # or (stalled clock) a tail transaction got the id of a
                # transaction the pack removed as garbage, so that the
                # tail's undo targets name different transactions
                stats['twin_diverged'] = stats.get('twin_diverged', 0) + 1
            elif info is not None and info.get('raised') is None \
                    and not d.viol:
                stats['twin_compared'] = stats.get('twin_compared', 0) + 1
                # objects reachable from the root at the end
                final, _ = twin.reach(twin.model, b'\x7f' + b'\xff' * 7)
                for oid in sorted(final):
                    a = d.model.x_load(oid)
                    b = twin.model.x_load(oid)
                    if a[:2] != b[:2]:
                        at_t, _ = d.reach(info['pre'], p64(
                            u64(info['stop']) + 1))
                        cls = '' if (oid in at_t or not info['gc']
                                     or case['kind'] != 'file') \
                            else '/unreachable-at-T'
                        viol.append(('pack-vs-twin' + cls, '[pack %s] final '
                                     'state of %r differs between the packed '
                                     'storage and the unpacked twin'
                                     % (label, oid)))
                        break
            if len(samples) < 2:
                samples.append({'pack': label, 'outcomes': d.outcomes})
            if len(viol) >= 12:
                break
    stats['sim_time_s'] = sim_time
    stats['kind:' + case['kind']] = 1
    return {
        'violations': [{'oracle': o, 'detail': x} for o, x in viol[:20]],
        'stats': stats,
        'keys': keys,
        'evals': max(evals, 1),
        'sample': {'kind': case['kind'], 'opts': case['opts'],
                   'ops': case['ops'], 'tail': case['tail'],
                   'packs': samples},
        'digest': sim0.digest(repr(viol), repr(sorted(stats.items())),
                              twin.outcomes),
    }


LEVEL_TEXT = ('seeded search over object-graph histories; per history every '
              'candidate pack time is replayed on real FileStorage (fspack, '
              'gc on/off) or MappingStorage over the simulated disk with an '
              'exactly controlled clock; the packed storage is compared with '
              'the reference model before the pack on every object reachable '
              'at or after the pack time and every bound after it, later '
              'transactions must be identical, nothing reachable may be '
              'gone, an unpacked twin must end in the same state, repacking '
              'changes nothing and the result survives reopen.')
LEVEL_NOTE = ('reachability ground truth = references the generator wrote '
              '(not referencesf); histories <= 16 transactions, <= 11 '
              'objects; trusted: reference model, fsparse')
TECHNIQUE = ('deterministic simulation: seeded histories, enumerated pack '
             'times under a controlled clock, differential against '
             'reference model and unpacked twin')
