"""Connection-level programs with a plain-Python shadow of every object:
the machine behind C11 (objects follow the outcome of their transaction)
and C12 (savepoint rollback)."""

import copy
import random

import persistent
import transaction
from persistent.list import PersistentList
from persistent.mapping import PersistentMapping
from transaction.interfaces import InvalidSavepointRollbackError
from ZODB.POSException import ConflictError
from ZODB.POSException import ConnectionStateError
from ZODB.POSException import StorageError

from . import ctx
from . import dbh
from . import objs
from . import simfs
from .model import Log

NEW, ADDED, SAVED, COMMITTED = 'new', 'added', 'saved', 'committed'
KINDS = ('cell', 'cell', 'pmap', 'plist', 'eager')


class Boom(Exception):
    """Raised by the failing participant."""


class Unpicklable(persistent.Persistent):
    """A persistent object whose state cannot be taken."""

    def __getstate__(self):
        raise TypeError('this object cannot be pickled')


class FailingDM:
    """A second participant of the transaction that fails in one phase."""

    def __init__(self, phase, first):
        self.phase = phase
        self.first = first
        self.transaction_manager = None

    def sortKey(self):
        return '!' if self.first else '~~~~'

    def _maybe(self, phase):
        if self.phase == phase:
            raise Boom('participant fails in ' + phase)

    def abort(self, txn):
        pass

    def tpc_begin(self, txn):
        self._maybe('tpc_begin')

    def commit(self, txn):
        self._maybe('commit')

    def tpc_vote(self, txn):
        self._maybe('tpc_vote')

    def tpc_finish(self, txn):
        pass

    def tpc_abort(self, txn):
        pass


# -- the three container kinds -------------------------------------------


def make(kind, tok):
    if kind == 'cell':
        return objs.Cell(tok)
    if kind == 'eager':
        return objs.Eager(tok)
    if kind == 'pmap':
        m = PersistentMapping()
        m['token'] = tok
        m['kids'] = []
        return m
    lst = PersistentList()
    lst.append(tok)
    return lst


def get_token(o):
    if isinstance(o, objs.Cell):
        return o.token
    if isinstance(o, PersistentMapping):
        return o['token']
    return o[0]


def set_token(o, t):
    if isinstance(o, objs.Cell):
        o.token = t
    elif isinstance(o, PersistentMapping):
        o['token'] = t
    else:
        o[0] = t


def get_kids(o):
    if isinstance(o, objs.Cell):
        return list(o.refs)
    if isinstance(o, PersistentMapping):
        return list(o['kids'])
    return list(o[1:])


def set_kids(o, kids):
    if isinstance(o, objs.Cell):
        o.refs = list(kids)
    elif isinstance(o, PersistentMapping):
        o['kids'] = list(kids)
    else:
        o[1:] = list(kids)


class SO:
    """Shadow of one object."""
    __slots__ = ('h', 'kind', 'obj', 'token', 'kids', 'status', 'dirty',
                 'committed', 'born')

    def __init__(self, h, kind, obj, token, born):
        self.h = h
        self.kind = kind
        self.obj = obj
        self.token = token
        self.kids = []
        self.status = NEW
        self.dirty = False
        self.committed = None       # (token, kids) of last committed state
        self.born = born            # number of savepoints taken before birth


class Machine:

    def __init__(self, case, savepoints=False):
        self.case = case
        self.sim = ctx.activate(ctx.Sim(case['seed'],
                                        bufsize=case.get('bufsize', 8192)))
        self.kind = case['kind']
        self.small_cache = case.get('cache_size', 400) < 50
        self.nsp_total = 0      # savepoints taken so far (explicit ones)
        self.stop = False
        self.db = dbh.make_db(self.sim, self.kind,
                              cache_size=case.get('cache_size', 400))
        self.st = self.db.storage
        self.log = Log()
        self.viol = []
        self.trace = []
        self.counter = 0
        self.A = dbh.Client(self.db, 'A')
        self.B = dbh.Client(self.db, 'B')
        self.sos = []
        self.pending_tokens = set()     # tokens never committed (yet)
        self.sps = []                   # [(transaction savepoint, snapshot,
        #                                  valid)]
        self.nsp = 0
        self.saved = set()              # handles saved in the TmpStore
        self.joined = False
        self.setup_failed = False
        try:
            self.setup()
        except Exception as e:      # noqa: B902
            self.setup_failed = True
            self.flag('setup-raises', 'creating the first object raised '
                      '%s: %s' % (type(e).__name__, str(e)[:80]))

    def flag(self, o, x):
        if len(self.viol) < 20:
            self.viol.append((o, x))

    def tok(self):
        self.counter += 1
        return self.counter

    def adopt(self):
        st = self.st
        if self.kind.startswith('demo'):
            n = 0
            if not self.log.txns:
                n += dbh.adopt(self.log, st.base)
            return n + dbh.adopt(self.log, st.changes)
        return dbh.adopt(self.log, st)

    def setup(self):
        A = self.A
        A.open()
        t = self.tok()
        top = make('cell', t)
        A.root()['top'] = top
        so = SO(0, 'cell', top, t, 0)
        self.sos.append(so)
        A.commit()
        so.status = COMMITTED
        so.committed = (t, [])
        self.adopt()
        self.B.open()

    # -- graph helpers ----------------------------------------------------

    def closure_new(self, start):
        """handles in `start` plus new (uncommitted) objects reachable from
        them through new objects."""
        out = set(start)
        todo = list(start)
        while todo:
            h = todo.pop()
            for k in self.sos[h].kids:
                if k not in out and self.sos[k].status != COMMITTED:
                    out.add(k)
                    todo.append(k)
        return out

    def to_be_stored(self):
        roots = {s.h for s in self.sos
                 if (s.status == COMMITTED and s.dirty)
                 or s.status == ADDED
                 or (s.status == SAVED and s.dirty)}
        return self.closure_new(roots) | set(self.saved)

    # -- ops ----------------------------------------------------------------

    def op_mod(self, h):
        so = self.sos[h % len(self.sos)]
        t = self.tok()
        set_token(so.obj, t)
        so.token = t
        so.dirty = True
        self.pending_tokens.add(t)
        if so.status in (COMMITTED, ADDED, SAVED):
            self.joined = True
        self.trace.append('mod')

    def op_new(self, parent, kind, explicit):
        t = self.tok()
        obj = make(kind, t)
        so = SO(len(self.sos), kind, obj, t, self.nsp)
        self.sos.append(so)
        self.pending_tokens.add(t)
        if explicit:
            self.A.conn.add(obj)
            so.status = ADDED
            self.joined = True
            if obj._p_oid is None or obj._p_jar is not self.A.conn:
                self.flag('add-does-not-own', 'conn.add() left the object '
                          'without oid/jar')
            self.trace.append('add')
        else:
            p = self.sos[parent % (len(self.sos) - 1)]
            kids = get_kids(p.obj) + [obj]
            set_kids(p.obj, kids)
            p.kids = p.kids + [so.h]
            p.dirty = True
            if p.status in (COMMITTED, ADDED, SAVED):
                self.joined = True
            self.trace.append('new')

    def op_spfail(self):
        """A savepoint that fails half-way: a new object under the root
        whose own child cannot be pickled (the object is written to the
        savepoint's storage, then the child raises); then abort."""
        A = self.A
        self.op_new(0, 'cell', False)
        so = self.sos[-1]
        so.obj.poison = Unpicklable()
        try:
            A.tm.savepoint()
        except Exception:           # noqa: B902
            pass
        else:
            self.flag('savepoint-raises', 'a savepoint over an object '
                      'that cannot be pickled succeeded')
        # (the failed savepoint has already aborted the connection's part
        # of the transaction)
        so.obj.__dict__.pop('poison', None)
        A.abort()
        self.after_failure()
        self.storage_unchanged('after failed savepoint and abort')
        self.check_values('after failed savepoint and abort')
        self.check_tmpstore('after failed savepoint and abort')
        self.trace.append('spfail')

    def op_attach(self, parent, child):
        p = self.sos[parent % len(self.sos)]
        c = self.sos[child % len(self.sos)]
        if c.h == 0 or c is p:
            return
        set_kids(p.obj, get_kids(p.obj) + [c.obj])
        p.kids = p.kids + [c.h]
        p.dirty = True
        if p.status in (COMMITTED, ADDED, SAVED):
            self.joined = True
        self.trace.append('attach')

    def op_detach(self, parent, i):
        p = self.sos[parent % len(self.sos)]
        if not p.kids:
            return
        i %= len(p.kids)
        kids = get_kids(p.obj)
        del kids[i]
        set_kids(p.obj, kids)
        p.kids = p.kids[:i] + p.kids[i + 1:]
        p.dirty = True
        if p.status in (COMMITTED, ADDED, SAVED):
            self.joined = True
        self.trace.append('detach')

    def after_success(self, tid):
        """Shadow transition for a successful commit."""
        stored = self.to_be_stored()
        for h in stored:
            so = self.sos[h]
            so.status = COMMITTED
        for so in self.sos:
            if so.status == COMMITTED:
                so.committed = (so.token, list(so.kids))
                so.dirty = False
        self.pending_tokens = {s.token for s in self.sos
                               if s.status != COMMITTED}
        self.saved = set()
        self.sps = []
        self.nsp = 0
        self.joined = False
        return stored

    def after_failure(self):
        """Shadow transition for abort / failed commit."""
        for so in self.sos:
            if so.status == COMMITTED:
                so.token, so.kids = so.committed[0], list(so.committed[1])
                so.dirty = False
            else:
                so.status = NEW
                so.dirty = False
        self.saved = set()
        self.sps = []
        self.nsp = 0
        self.joined = False

    def check_after_success(self, stored, n_adopted):
        A = self.A
        if n_adopted != 1:
            if stored or n_adopted:
                self.flag('commit-transactions', 'a successful commit '
                          'stored %d transactions' % n_adopted)
            return
        t = self.log.txns[-1]
        got = sorted(r.oid for r in t.recs)
        want = sorted(self.sos[h].obj._p_oid for h in stored
                      if self.sos[h].obj._p_oid is not None)
        if len(want) != len(stored):
            self.flag('stored-without-oid', 'an object that had to be '
                      'stored has no oid after the commit')
        if got != want:
            self.flag('commit-record-set', 'the commit stored records for '
                      '%d objects %r, expected %d %r (handles %r)'
                      % (len(got), got, len(want), want, sorted(stored)))
        for h in stored:
            o = self.sos[h].obj
            if o._p_changed:
                self.flag('dirty-after-commit', 'object %d is still marked '
                          'changed after a successful commit' % h)
            if o._p_jar is not A.conn:
                self.flag('stored-without-jar', 'object %d does not belong '
                          'to the connection after the commit' % h)
            elif o._p_changed is not None and o._p_serial != t.tid:
                self.flag('serial-after-commit', 'object %d carries serial '
                          '%r after being committed in %r'
                          % (h, o._p_serial, t.tid))

    def check_values(self, where):
        """Every object shows what the shadow says (access reloads)."""
        for so in self.sos:
            o = so.obj
            if so.status == NEW:
                if o._p_oid is not None or o._p_jar is not None:
                    self.flag('new-object-still-owned', '%s: object %d, new '
                              'in the ended/rolled-back transaction, still '
                              'has oid %r / a jar' % (where, so.h, o._p_oid))
                else:
                    # it is a plain Python object again and must still be
                    # one that can be added later: its state is intact
                    try:
                        get_token(o)
                        get_kids(o)
                    except Exception as e:      # noqa: B902
                        # known finding: with a small object cache the
                        # clean-up at a savepoint evicts a new object it
                        # has just saved; when it is un-added (abort,
                        # rollback, failed commit) it is a ghost that
                        # nothing can load any more
                        fam = '/evicted-by-savepoint' \
                            if self.small_cache and self.nsp_total else ''
                        self.flag('new-object-lost-state' + fam, '%s: '
                                  'object %d was disowned but lost its '
                                  'state (%s)'
                                  % (where, so.h, type(e).__name__))
                        self.stop = True    # (the object is unusable)
                continue
            try:
                tokv = get_token(o)
                kids = get_kids(o)
            except Exception as e:      # noqa: B902
                self.flag('object-unreadable', '%s: reading object %d '
                          '(status %s) raised %s: %s'
                          % (where, so.h, so.status, type(e).__name__,
                             str(e)[:60]))
                continue
            if tokv != so.token:
                self.flag('object-state', '%s: object %d shows token %r, '
                          'expected %r' % (where, so.h, tokv, so.token))
            want = [self.sos[k].obj for k in so.kids]
            if len(kids) != len(want) or any(a is not b for a, b
                                             in zip(kids, want)):
                self.flag('object-state', '%s: object %d references %d '
                          'objects, expected %d (or different ones)'
                          % (where, so.h, len(kids), len(want)))

    def storage_unchanged(self, where):
        if self.adopt():
            self.flag('failed-commit-stored', '%s: a transaction that did '
                      'not commit left a transaction in the storage' % where)

    def op_commit(self):
        A = self.A
        stored_expect = self.to_be_stored()
        try:
            A.commit()
        except Exception as e:      # noqa: B902
            self.flag('commit-raises', 'commit raised %s: %s'
                      % (type(e).__name__, str(e)[:80]))
            A.abort()
            self.after_failure()
            return
        n = self.adopt()
        stored = self.after_success(None)
        assert stored == stored_expect
        self.check_after_success(stored, n)
        self.check_values('after commit')
        self.check_tmpstore('after commit')
        self.trace.append('commit')

    def op_abort(self):
        self.A.abort()
        self.after_failure()
        self.storage_unchanged('after abort')
        self.check_values('after abort')
        self.check_tmpstore('after abort')
        self.trace.append('abort')

    def op_failcommit(self, how, arg):
        """A commit that must fail in a chosen way."""
        A = self.A
        fs = self.sim.fs
        expect_fail = True
        plan = None
        if how == 'conflict':
            # the observer commits one of A's dirty committed objects first
            victims = [s for s in self.sos
                       if s.status == COMMITTED and s.dirty]
            if not victims:
                return self.op_commit()
            v = victims[arg % len(victims)]
            B = self.B
            B.begin()
            ob = B.conn.get(v.obj._p_oid)
            t = self.tok()
            set_token(ob, t)
            B.commit()
            self.adopt()
            v.committed = (t, list(v.committed[1]))
        elif how == 'participant':
            phase = ('tpc_begin', 'commit', 'tpc_vote')[arg % 3]
            A.tm.get().join(FailingDM(phase, first=(arg // 3) % 2 == 0))
        elif how == 'longnote':
            if self.kind != 'file':
                return self.op_commit()
            A.tm.get().note('x' * 70000)
            if not self.joined:
                expect_fail = False     # the connection never begins
        elif how == 'io':
            if self.kind != 'file' or not self.joined:
                return self.op_commit()
            plan = fs.arm(simfs.FaultPlan([{'at': arg % 12,
                                            'kind': 'enospc'}]))
        raised = None
        orig_finish = None
        if plan is not None:
            # faults at or after the status flip are C01's business: the
            # disk works again once tpc_finish is entered
            orig_finish = self.st.tpc_finish

            def finish(*a, **k):
                fs.disarm()
                return orig_finish(*a, **k)
            self.st.tpc_finish = finish
        try:
            A.commit()
        except (ConflictError, Boom, StorageError, OSError) as e:
            raised = e
        except Exception as e:      # noqa: B902
            raised = e
            self.flag('commit-raises', 'failing commit (%s) raised '
                      'unexpected %s: %s' % (how, type(e).__name__,
                                             str(e)[:80]))
        fs.disarm()
        if orig_finish is not None:
            del self.st.tpc_finish
        if raised is None:
            if plan is not None and not plan.fired:
                expect_fail = False
            if how == 'conflict':
                pass
            if expect_fail and how != 'io':
                self.flag('failure-not-reported', 'commit with %s succeeded'
                          % how)
            n = self.adopt()
            stored = self.after_success(None)
            self.check_after_success(stored, n)
            self.trace.append('commit')
            return
        if arg % 4 == 1:
            # the application goes on in the doomed transaction before it
            # aborts: adding an object now must fail and leave the object
            # unowned
            extra = make('cell', self.tok())
            try:
                A.conn.add(extra)
            except Exception:       # noqa: B902 -- TransactionFailedError
                pass
            else:
                self.trace.append('add-in-doomed-accepted')
            A.abort()
            if extra._p_oid is not None or extra._p_jar is not None:
                self.flag('new-object-still-owned', 'an object passed to '
                          'conn.add() after the commit had failed (before '
                          'abort) still has oid %r / a jar after the abort'
                          % (extra._p_oid,))
        A.abort()
        self.after_failure()
        self.storage_unchanged('after failed commit (%s)' % how)
        self.check_values('after failed commit (%s)' % how)
        self.check_tmpstore('after failed commit (%s)' % how)
        self.trace.append('fail:' + how)

    def op_close(self):
        A = self.A
        if self.joined:
            try:
                A.conn.close()
            except ConnectionStateError:
                self.trace.append('close-refused')
                return
            self.flag('close-while-joined', 'close() succeeded while the '
                      'connection had uncommitted changes')
            return
        # not joined: new unattached objects are just Python objects
        try:
            A.conn.close()
        except Exception as e:      # noqa: B902
            self.flag('close-raises', 'close() outside a transaction raised '
                      '%s' % type(e).__name__)
            return
        A.conn = None
        A.open()
        self.check_values('after close + reopen')
        self.trace.append('close')

    def op_observe(self):
        """The observer never sees uncommitted state."""
        B = self.B
        B.begin()
        seen = set()
        todo = [B.root()['top']]
        while todo:
            o = todo.pop()
            if id(o) in seen:
                continue
            seen.add(id(o))
            try:
                t = get_token(o)
                kids = get_kids(o)
            except Exception as e:      # noqa: B902
                self.flag('observer-unreadable', 'observer cannot read %r: '
                          '%s' % (o._p_oid, type(e).__name__))
                continue
            if t in self.pending_tokens:
                self.flag('uncommitted-visible', 'the observer connection '
                          'sees token %r, which is not committed' % t)
            todo.extend(kids)
        # committed values of the reachable committed objects
        for so in self.sos:
            if so.status == COMMITTED and so.obj._p_oid is not None:
                try:
                    ob = B.conn.get(so.obj._p_oid)
                    if get_token(ob) != so.committed[0]:
                        self.flag('observer-state', 'observer reads token '
                                  '%r of object %d, committed is %r'
                                  % (get_token(ob), so.h, so.committed[0]))
                except Exception as e:  # noqa: B902
                    self.flag('observer-unreadable', 'observer cannot load '
                              'committed object %d: %s'
                              % (so.h, type(e).__name__))
        self.trace.append('observe')

    # -- savepoints (C12) -------------------------------------------------

    def snapshot(self):
        return {'sos': [(s.token, list(s.kids), s.status, s.dirty)
                        for s in self.sos],
                'saved': set(self.saved), 'nsos': len(self.sos),
                'nsp': self.nsp, 'joined': self.joined}

    def op_savepoint(self):
        A = self.A
        try:
            sp = A.tm.savepoint()
        except Exception as e:      # noqa: B902
            self.flag('savepoint-raises', '%s: %s' % (type(e).__name__,
                                                      str(e)[:80]))
            return
        # what the savepoint saved: dirty/added objects and new ones
        # reachable from them
        roots = {s.h for s in self.sos if (s.dirty and s.status in
                                           (COMMITTED, SAVED))
                 or s.status == ADDED}
        saved_now = self.closure_new(roots)
        for h in saved_now:
            so = self.sos[h]
            if so.status in (NEW, ADDED):
                so.status = SAVED
            so.dirty = False
            self.saved.add(h)
        for so in self.sos:
            so.dirty = False
        self.nsp += 1
        self.nsp_total += 1
        if saved_now:
            self.joined = True
        self.sps.append([sp, self.snapshot(), True])
        for h in saved_now:
            o = self.sos[h].obj
            if o._p_oid is None or o._p_jar is not A.conn:
                self.flag('savepoint-does-not-own', 'object %d saved by a '
                          'savepoint has no oid/jar' % h)
        if self.case.get('look_after_sp', True):
            # (looking re-activates what the savepoint's cache clean-up
            # evicted; some small-cache runs do not look)
            self.check_values('after savepoint')
        self.trace.append('sp')

    def op_rollback(self, j):
        if not self.sps:
            return
        j %= len(self.sps)
        sp, snap, valid = self.sps[j]
        try:
            sp.rollback()
        except InvalidSavepointRollbackError:
            if valid:
                self.flag('rollback-refused', 'rollback to a valid '
                          'savepoint was refused')
            self.trace.append('rb-invalid')
            return
        except Exception as e:      # noqa: B902
            self.flag('rollback-raises', '%s: %s' % (type(e).__name__,
                                                     str(e)[:80]))
            return
        if not valid:
            self.flag('invalid-rollback-accepted', 'rollback to a savepoint '
                      'invalidated by an earlier rollback was accepted')
        for k in range(j + 1, len(self.sps)):
            self.sps[k][2] = False
        # shadow := snapshot
        for i, so in enumerate(self.sos):
            if i < snap['nsos']:
                tokv, kids, status, dirty = snap['sos'][i]
                if status == NEW:
                    # a plain Python object at that time: it is un-added
                    # now, its attributes are whatever they are
                    so.status = NEW
                    so.dirty = False
                else:
                    so.token, so.kids = tokv, list(kids)
                    so.status = status
                    so.dirty = False
            else:
                so.status = NEW         # created after the savepoint
                so.dirty = False
        self.saved = set(snap['saved'])
        self.nsp = max(self.nsp, snap['nsp'])
        if not snap['joined']:
            # the connection joined the transaction after this savepoint
            # was taken: rolling back aborts its part and un-joins it
            self.joined = False
        self.check_values('after rollback to savepoint %d' % j)
        self.trace.append('rb')

    def check_tmpstore(self, where):
        conn = self.A.conn
        if conn is None:
            return
        if getattr(conn, '_savepoint_storage', None) is not None:
            self.flag('savepoint-data-left', '%s: the connection still '
                      'holds its temporary savepoint store' % where)

    def finish(self):
        try:
            self.A.abort()
            self.B.abort()
            self.db.close()
        except Exception:       # noqa: B902
            pass


def gen_program(r, n, savepoints=False, kind='file'):
    ops = []
    for _ in range(n):
        x = r.random()
        if x < 0.22:
            ops.append(['mod', r.randrange(8)])
        elif x < 0.40:
            ops.append(['new', r.randrange(8), r.choice(KINDS),
                        r.random() < 0.25])
        elif x < 0.46:
            ops.append(['attach', r.randrange(8), r.randrange(8)])
        elif x < 0.52:
            ops.append(['detach', r.randrange(8), r.randrange(4)])
        elif savepoints and x < 0.68:
            ops.append(['sp'])
        elif savepoints and x < 0.82:
            ops.append(['rb', r.randrange(5)])
        elif x < 0.82 + 0.06:
            ops.append(['commit'])
        elif x < 0.92:
            ops.append(['abort'])
        elif x < 0.96:
            ops.append(['fail', r.choice(('conflict', 'participant',
                                          'participant', 'longnote', 'io')),
                        r.randrange(12)])
        elif x < 0.98:
            ops.append(['close'])
        else:
            ops.append(['observe'])
    if savepoints and r.random() < 0.25:
        # a savepoint that fails half-way (after at least one that worked,
        # as the implicit savepoint of a commit would)
        at = r.randrange(len(ops) + 1)
        ops[at:at] = [['sp'], ['spfail']] if r.random() < 0.7 \
            else [['spfail']]
    ops.append(['commit'])
    ops.append(['observe'])
    return ops


def run_program(case, savepoints=False):
    m = Machine(case, savepoints)
    try:
        for op in ([] if m.setup_failed else case['ops']):
            k = op[0]
            if k == 'mod':
                m.op_mod(op[1])
            elif k == 'new':
                m.op_new(op[1], op[2], op[3])
            elif k == 'attach':
                m.op_attach(op[1], op[2])
            elif k == 'detach':
                m.op_detach(op[1], op[2])
            elif k == 'commit':
                m.op_commit()
            elif k == 'abort':
                m.op_abort()
            elif k == 'fail':
                m.op_failcommit(op[1], op[2])
            elif k == 'close':
                m.op_close()
            elif k == 'observe':
                m.op_observe()
            elif k == 'sp':
                m.op_savepoint()
            elif k == 'spfail':
                m.op_spfail()
            elif k == 'rb':
                m.op_rollback(op[1])
            if len(m.viol) >= 8 or m.stop:
                break
    except Exception as e:      # noqa: B902
        import traceback
        m.flag('program-raises', '%s: %s | %s' % (
            type(e).__name__, str(e)[:80],
            ' / '.join(x.strip()[:70] for x in
                       traceback.format_exc().strip().splitlines()[-5:-1])))
    finally:
        m.finish()
    return m
